fn main() { println!("ok"); }
