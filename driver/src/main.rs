//! qverif-driver: runs the *real* qrlew code concretely on JSON jobs (one per stdin line) and prints one JSON
//! answer per line. Every job runs under catch_unwind; a panic is reported as {"panic": msg}.
mod codec;
mod rel;
mod rw;

use codec::*;
use qrlew::data_type::function::Function as _;
use qrlew::data_type::injection::Injection as _;
use qrlew::data_type::injection::InjectInto as _;
use qrlew::data_type::{value::Value, value::Variant as _, DataType, DataTyped, Variant as _};
use qrlew::expr::implementation;
use qrlew::hierarchy::Hierarchy;
use serde_json::{json, Value as J};
use std::io::{BufRead, Write};
use std::panic::{catch_unwind, AssertUnwindSafe};
use std::sync::Mutex;

static LAST_PANIC: Mutex<String> = Mutex::new(String::new());

fn res_dt<E: std::fmt::Display>(r: Result<DataType, E>) -> J {
    match r {
        Ok(t) => json!({"ok": dt_to_json(&t), "s": t.to_string()}),
        Err(e) => json!({"err": e.to_string()}),
    }
}
fn res_val<E: std::fmt::Display>(r: Result<Value, E>) -> J {
    match r {
        Ok(t) => json!({"ok": value_to_json(&t), "s": t.to_string()}),
        Err(e) => json!({"err": e.to_string()}),
    }
}

/// run a closure under catch_unwind, turning a panic into {"panic": msg}
pub fn guarded<F: FnOnce() -> J>(f: F) -> J {
    match catch_unwind(AssertUnwindSafe(f)) {
        Ok(j) => j,
        Err(_) => json!({"panic": LAST_PANIC.lock().unwrap().clone()}),
    }
}

fn dts(j: &J) -> R<Vec<DataType>> {
    j.as_array().ok_or("expected array of types")?.iter().map(json_to_dt).collect()
}
fn vals(j: &J) -> R<Vec<Value>> {
    j.as_array().ok_or("expected array of values")?.iter().map(json_to_value).collect()
}

fn run(job: &J) -> R<J> {
    let op = job["op"].as_str().ok_or("no op")?;
    Ok(match op {
        "ping" => json!({"ok": true}),
        // ---------------------------------------------------------------- functions
        "fn_list" => {
            let l: Vec<J> = FUNCTIONS
                .iter()
                .map(|f| {
                    let (name, _) = function_name(f);
                    let info = guarded(|| {
                        let imp = implementation::function(*f);
                        json!({"domain": dt_to_json(&imp.domain()), "co_domain": dt_to_json(&imp.co_domain()),
                               "domain_s": imp.domain().to_string(), "co_domain_s": imp.co_domain().to_string()})
                    });
                    json!({"f": name, "is_bijection": f.is_bijection(), "is_unique": f.is_unique(), "arity": format!("{:?}", f.arity()), "info": info})
                })
                .collect();
            json!({"ok": l})
        }
        "fn_super_image" => {
            let f = function_from(job["f"].as_str().ok_or("f")?, job["n"].as_u64().map(|x| x as usize))?;
            let a = dts(&job["args"])?;
            guarded(|| res_dt(f.super_image(&a)))
        }
        "fn_value" => {
            let f = function_from(job["f"].as_str().ok_or("f")?, job["n"].as_u64().map(|x| x as usize))?;
            let a = vals(&job["args"])?;
            guarded(|| res_val(f.value(&a)))
        }
        "agg_super_image" => {
            let a = aggregate_from(job["a"].as_str().ok_or("a")?)?;
            let t = json_to_dt(&job["dt"])?;
            guarded(|| res_dt(a.super_image(&t)))
        }
        "agg_value" => {
            let a = aggregate_from(job["a"].as_str().ok_or("a")?)?;
            let v = json_to_value(&job["v"])?;
            guarded(|| res_val(a.value(&v)))
        }
        "expr_super_image" => {
            let e = json_to_expr(&job["expr"])?;
            let t = json_to_dt(&job["dt"])?;
            guarded(|| res_dt(e.super_image(&t)))
        }
        "expr_value" => {
            let e = json_to_expr(&job["expr"])?;
            let v = json_to_value(&job["v"])?;
            guarded(|| res_val(e.value(&v)))
        }
        "expr_sql" => {
            let e = json_to_expr(&job["expr"])?;
            guarded(|| json!({"ok": qrlew::ast::Expr::from(&e).to_string()}))
        }
        "expr_show" => {
            let e = json_to_expr(&job["expr"])?;
            json!({"ok": e.to_string()})
        }
        // ---------------------------------------------------------------- types
        "inject" => {
            // {from: A, to: B, values: [...]}: converted type and converted values through the real injection
            let a = json_to_dt(&job["from"])?;
            let b = json_to_dt(&job["to"])?;
            let vs = if job["values"].is_null() { vec![] } else { vals(&job["values"])? };
            let image = guarded(|| res_dt(a.into_data_type(&b)));
            let variant = guarded(|| res_dt(a.into_variant(&b)));
            let values: Vec<J> = vs
                .iter()
                .map(|v| {
                    guarded(|| match a.inject_into(&b) {
                        Ok(inj) => res_val(inj.value(v)),
                        Err(e) => json!({"err": format!("no injection: {e}")}),
                    })
                })
                .collect();
            json!({"image": image, "variant": variant, "values": values})
        }
        "inject_direct" => {
            // the Base<A,B> injection built directly (public builder injection::From(..).into(..)); reaches pairs that
            // Base<A,DataType> does not route to (Integer->Boolean, Float->Integer)
            let a = json_to_dt(&job["from"])?;
            let b = json_to_dt(&job["to"])?;
            let vs = if job["values"].is_null() { vec![] } else { vals(&job["values"])? };
            macro_rules! direct {
                ($dom:expr, $cod:expr, $wrap:path, $unwrap:path) => {{
                    let image = guarded(|| match qrlew::data_type::injection::From($dom.clone()).into($cod.clone()) {
                        Ok(inj) => res_dt(inj.super_image(&$dom).map(DataType::from)),
                        Err(e) => json!({"err": format!("no injection: {e}")}),
                    });
                    let values: Vec<J> = vs
                        .iter()
                        .map(|v| {
                            guarded(|| match (qrlew::data_type::injection::From($dom.clone()).into($cod.clone()), v) {
                                (Ok(inj), $unwrap(x)) => res_val(inj.value(x).map(Value::from)),
                                (Err(e), _) => json!({"err": format!("no injection: {e}")}),
                                _ => json!({"err": "value of the wrong variant"}),
                            })
                        })
                        .collect();
                    json!({"image": image, "values": values})
                }};
            }
            match (&a, &b) {
                (DataType::Integer(d), DataType::Boolean(c)) => direct!(d, c, DataType::Boolean, Value::Integer),
                (DataType::Integer(d), DataType::Float(c)) => direct!(d, c, DataType::Float, Value::Integer),
                (DataType::Boolean(d), DataType::Integer(c)) => direct!(d, c, DataType::Integer, Value::Boolean),
                (DataType::Float(d), DataType::Integer(c)) => direct!(d, c, DataType::Integer, Value::Float),
                (DataType::Date(d), DataType::DateTime(c)) => direct!(d, c, DataType::DateTime, Value::Date),
                (DataType::DateTime(d), DataType::Date(c)) => direct!(d, c, DataType::Date, Value::DateTime),
                _ => json!({"image": {"err": "no direct injection for this pair"}, "values": []}),
            }
        }
        "int_values" => {
            // Intervals<i64>: the decision of into_values (values_len < max_value_len) and, when it enumerates, how many values
            use qrlew::data_type::intervals::Values as _;
            let a = json_to_dt(&job["dt"])?;
            let cap = job["enumerate_cap"].as_i64().unwrap_or(2_000_000);
            match a {
                DataType::Integer(i) => guarded(|| {
                    let len = i.values_len();
                    let enumerates = len.map(|l| l < i.max_value_len()).unwrap_or(false);
                    let width = match (i.min(), i.max()) {
                        (Some(a), Some(b)) => Some((*b as i128) - (*a as i128)),
                        _ => None,
                    };
                    let n = if enumerates && width.map(|w| w <= cap as i128).unwrap_or(false) { Some(i.values().len()) } else { None };
                    json!({"values_len": len, "max_value_len": i.max_value_len(), "enumerates": enumerates, "hull_width": width.map(|w| w.to_string()), "n_values": n})
                }),
                _ => json!({"err": "not an Integer type"}),
            }
        }
        "as_data_type" => {
            let v = json_to_value(&job["v"])?;
            let b = json_to_dt(&job["to"])?;
            guarded(|| res_val(v.as_data_type(&b)))
        }
        "lattice" => {
            let a = json_to_dt(&job["a"])?;
            let b = json_to_dt(&job["b"])?;
            json!({
                "a_sub_b": guarded(|| json!(a.is_subset_of(&b))),
                "b_sub_a": guarded(|| json!(b.is_subset_of(&a))),
                "union": guarded(|| res_dt(a.super_union(&b))),
                "inter": guarded(|| res_dt(a.super_intersection(&b))),
            })
        }
        "contains" => {
            let a = json_to_dt(&job["dt"])?;
            let vs = vals(&job["values"])?;
            json!({"ok": vs.iter().map(|v| guarded(|| json!(a.contains(v)))).collect::<Vec<_>>()})
        }
        "value_type" => {
            let v = json_to_value(&job["v"])?;
            guarded(|| {
                let t = v.data_type();
                json!({"ok": dt_to_json(&t), "contains": t.contains(&v)})
            })
        }
        "filter" => {
            let t = json_to_dt(&job["dt"])?;
            let p = json_to_expr(&job["pred"])?;
            guarded(|| {
                let r = t.filter(&p);
                json!({"ok": dt_to_json(&r), "s": r.to_string()})
            })
        }
        // ---------------------------------------------------------------- hierarchy
        "hierarchy_get" => {
            let entries: Vec<Vec<String>> = job["entries"]
                .as_array()
                .ok_or("entries")?
                .iter()
                .map(|p| p.as_array().map(|a| a.iter().map(|s| s.as_str().unwrap_or("").to_string()).collect()).unwrap_or_default())
                .collect();
            let h: Hierarchy<usize> = entries.iter().cloned().enumerate().map(|(i, p)| (p, i)).collect();
            let lookups = job["lookups"].as_array().ok_or("lookups")?;
            let out: Vec<J> = lookups
                .iter()
                .map(|p| {
                    let path: Vec<String> = p.as_array().map(|a| a.iter().map(|s| s.as_str().unwrap_or("").to_string()).collect()).unwrap_or_default();
                    guarded(|| match h.get_key_value(&path) {
                        Some((k, v)) => json!({"found": v, "key": k, "get": h.get(&path)}),
                        None => json!({"found": J::Null, "get": h.get(&path)}),
                    })
                })
                .collect();
            json!({"ok": out})
        }
        _ => match rel::run(op, job) {
            Some(r) => r?,
            None => return Err(format!("unknown op {op}")),
        },
    })
}

fn main() {
    std::panic::set_hook(Box::new(|info| {
        let msg = if let Some(s) = info.payload().downcast_ref::<&str>() {
            s.to_string()
        } else if let Some(s) = info.payload().downcast_ref::<String>() {
            s.clone()
        } else {
            "panic".to_string()
        };
        let loc = info.location().map(|l| format!(" at {}:{}", l.file(), l.line())).unwrap_or_default();
        *LAST_PANIC.lock().unwrap() = format!("{msg}{loc}");
    }));
    let stdin = std::io::stdin();
    let stdout = std::io::stdout();
    for line in stdin.lock().lines() {
        let line = match line {
            Ok(l) => l,
            Err(_) => break,
        };
        if line.trim().is_empty() {
            continue;
        }
        let out = match serde_json::from_str::<J>(&line) {
            Ok(job) => {
                let id = job["id"].clone();
                let mut r = match catch_unwind(AssertUnwindSafe(|| run(&job))) {
                    Ok(Ok(j)) => j,
                    Ok(Err(e)) => json!({"bad_job": e}),
                    Err(_) => json!({"panic": LAST_PANIC.lock().unwrap().clone()}),
                };
                if let J::Object(m) = &mut r {
                    m.insert("id".into(), id);
                }
                r
            }
            Err(e) => json!({"bad_job": format!("json: {e}")}),
        };
        let mut o = stdout.lock();
        let _ = writeln!(o, "{}", out);
        let _ = o.flush();
    }
}
