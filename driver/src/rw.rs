//! rewriting jobs: rule extraction (engine T), privacy-unit tracking and DP rewriting (engine S)
use crate::codec::*;
use crate::guarded;
use crate::rel::{parse_relation, relation_json, render, tables_from};
use qrlew::differential_privacy::dp_parameters::DpParameters;
use qrlew::expr::Identifier;
use qrlew::hierarchy::Hierarchy;
use qrlew::privacy_unit_tracking::{privacy_unit::PrivacyUnit, Strategy};
use qrlew::relation::{Relation, Variant as _};
use qrlew::rewriting::rewriting_rule::{
    Parameters, Rewriter, RewritingRulesEliminator, RewritingRulesSelector, RewritingRulesSetter, Score,
};
use qrlew::rewriting::{RelationWithRewritingRule, RelationWithRewritingRules, RewritingRule};
use qrlew::synthetic_data::SyntheticData;
use qrlew::visitor::Acceptor;
use serde_json::{json, Value as J};
use std::sync::Arc;

pub fn privacy_unit_from(j: &J) -> R<PrivacyUnit> {
    // [{"table": "t", "path": [["fk","ref_table","ref_id"],...], "field": "id", "weight": null|"w"}], optional "hash": bool
    let items = j["tables"].as_array().ok_or("privacy_unit.tables")?;
    let mut owned: Vec<(String, Vec<(String, String, String)>, String, Option<String>)> = vec![];
    for it in items {
        let path: Vec<(String, String, String)> = it["path"]
            .as_array()
            .map(|p| {
                p.iter()
                    .map(|s| (s[0].as_str().unwrap_or("").to_string(), s[1].as_str().unwrap_or("").to_string(), s[2].as_str().unwrap_or("").to_string()))
                    .collect()
            })
            .unwrap_or_default();
        owned.push((
            it["table"].as_str().ok_or("table")?.to_string(),
            path,
            it["field"].as_str().ok_or("field")?.to_string(),
            it["weight"].as_str().map(|s| s.to_string()),
        ));
    }
    let hash = j["hash"].as_bool();
    let any_weight = owned.iter().any(|o| o.3.is_some());
    if any_weight {
        let v: Vec<(&str, Vec<(&str, &str, &str)>, &str, &str)> = owned
            .iter()
            .map(|(t, p, f, w)| (t.as_str(), p.iter().map(|(a, b, c)| (a.as_str(), b.as_str(), c.as_str())).collect(), f.as_str(), w.as_deref().unwrap_or("")))
            .collect();
        Ok(match hash {
            Some(h) => PrivacyUnit::from((v, h)),
            None => PrivacyUnit::from(v),
        })
    } else {
        let v: Vec<(&str, Vec<(&str, &str, &str)>, &str)> =
            owned.iter().map(|(t, p, f, _)| (t.as_str(), p.iter().map(|(a, b, c)| (a.as_str(), b.as_str(), c.as_str())).collect(), f.as_str())).collect();
        Ok(match hash {
            Some(h) => PrivacyUnit::from((v, h)),
            None => PrivacyUnit::from(v),
        })
    }
}

pub fn dp_parameters_from(j: &J) -> R<DpParameters> {
    let g = |k: &str, d: f64| j[k].as_f64().unwrap_or(d);
    Ok(DpParameters::new(
        g("epsilon", 1.0),
        g("delta", 1e-3),
        g("tau_thresholding_share", 0.5),
        g("privacy_unit_max_multiplicity", 100.0),
        g("privacy_unit_max_multiplicity_share", 0.1),
        j["max_privacy_unit_groups"].as_u64().unwrap_or(5),
    ))
}

pub fn synthetic_from(j: &J, tables: &Hierarchy<Arc<Relation>>) -> Option<SyntheticData> {
    if !j.as_bool().unwrap_or(false) {
        return None;
    }
    let h: Hierarchy<Identifier> = tables
        .iter()
        .map(|(p, _)| {
            let mut sp = p.clone();
            let last = sp.pop().unwrap_or_default();
            sp.push(format!("sd_{last}"));
            (p.clone(), Identifier::from(sp))
        })
        .collect();
    Some(SyntheticData::new(h))
}

fn param_kind(p: &Parameters) -> &'static str {
    match p {
        Parameters::None => "None",
        Parameters::SyntheticData(_) => "SyntheticData",
        Parameters::DifferentialPrivacy(_) => "DifferentialPrivacy",
        Parameters::PrivacyUnit(_) => "PrivacyUnit",
    }
}

fn rule_json(r: &RewritingRule) -> J {
    json!({"inputs": r.inputs().iter().map(|p| format!("{:?}", p)).collect::<Vec<_>>(), "output": format!("{:?}", r.output()), "param": param_kind(r.parameters())})
}

fn kind_of(r: &Relation) -> &'static str {
    match r {
        Relation::Table(_) => "Table",
        Relation::Map(_) => "Map",
        Relation::Reduce(_) => "Reduce",
        Relation::Join(_) => "Join",
        Relation::Set(_) => "Set",
        Relation::Values(_) => "Values",
    }
}

/// tree of candidate rule lists
fn rules_tree(r: &RelationWithRewritingRules) -> J {
    json!({
        "kind": kind_of(r.relation()), "name": r.relation().name(),
        "rules": r.attributes().iter().map(rule_json).collect::<Vec<_>>(),
        "inputs": r.inputs().iter().map(|i| rules_tree(i)).collect::<Vec<_>>(),
    })
}

/// tree of chosen rules (one derivation)
fn derivation_tree(r: &RelationWithRewritingRule) -> J {
    json!({
        "kind": kind_of(r.relation()), "name": r.relation().name(),
        "rule": rule_json(r.attributes()),
        "inputs": r.inputs().iter().map(|i| derivation_tree(i)).collect::<Vec<_>>(),
    })
}

/// name-independent structural signature of a relation
pub fn signature(r: &Relation) -> String {
    let inner: Vec<String> = r.inputs().into_iter().map(signature).collect();
    let extra = match r {
        Relation::Table(t) => format!(":{}", t.path().iter().cloned().collect::<Vec<_>>().join(".")),
        Relation::Map(m) => format!(":{}{}", m.projection().len(), if m.filter().is_some() { "f" } else { "" }),
        Relation::Reduce(m) => format!(":{}g{}", m.aggregate().len(), m.group_by().len()),
        Relation::Join(j) => format!(":{}", j.operator().to_string().split(' ').next().unwrap_or("")),
        _ => String::new(),
    };
    format!("{}{}({})", kind_of(r), extra, inner.join(","))
}

pub fn run(op: &str, job: &J) -> Option<R<J>> {
    Some((|| -> R<J> {
        Ok(match op {
            // ------------------------------------------------------------ engine T: everything about one query's rule search
            "rules" => {
                let tables = tables_from(&job["tables"])?;
                let pu = privacy_unit_from(&job["privacy_unit"])?;
                let dp = dp_parameters_from(&job["dp"])?;
                let sd = synthetic_from(&job["synthetic"], &tables);
                let sql_text = job["sql"].as_str().ok_or("sql")?.to_string();
                let relation = match parse_relation(&tables, &sql_text) {
                    Ok(r) => r,
                    Err(e) => return Ok(json!({"err": e})),
                };
                let mut out = json!({"relation_sig": signature(&relation)});
                for (sname, strategy) in [("Soft", Strategy::Soft), ("Hard", Strategy::Hard)] {
                    let res = guarded(|| {
                        let with_rules = relation.set_rewriting_rules(RewritingRulesSetter::new(&tables, sd.clone(), pu.clone(), dp.clone(), strategy));
                        let set_tree = rules_tree(&with_rules);
                        let eliminated = with_rules.map_rewriting_rules(RewritingRulesEliminator);
                        let elim_tree = rules_tree(&eliminated);
                        let selected = eliminated.select_rewriting_rules(RewritingRulesSelector);
                        let max_rewrites = job["max_rewrites"].as_u64().unwrap_or(64) as usize;
                        let derivations: Vec<J> = selected
                            .iter()
                            .enumerate()
                            .map(|(k, rwrr)| {
                                let score = rwrr.accept(Score);
                                let mut d = json!({"tree": derivation_tree(rwrr), "output": format!("{:?}", rwrr.attributes().output()), "score": score});
                                if k < max_rewrites {
                                    let rew = guarded(|| {
                                        let r = rwrr.rewrite(Rewriter::new(&tables));
                                        json!({"sig": signature(r.relation()), "dp_event": r.dp_event().to_string()})
                                    });
                                    d["rewrite"] = rew;
                                }
                                d
                            })
                            .collect();
                        json!({"set": set_tree, "eliminated": elim_tree, "derivations": derivations})
                    });
                    out[sname] = res;
                }
                // the real entry points
                out["entry_dp"] = guarded(|| match relation.rewrite_with_differential_privacy(&tables, sd.clone(), pu.clone(), dp.clone()) {
                    Ok(r) => json!({"ok": {"sig": signature(r.relation()), "dp_event": r.dp_event().to_string()}}),
                    Err(e) => json!({"err": e.to_string()}),
                });
                for (sname, strategy) in [("Soft", Strategy::Soft), ("Hard", Strategy::Hard)] {
                    out[format!("entry_pup_{sname}")] =
                        guarded(|| match relation.rewrite_as_privacy_unit_preserving(&tables, sd.clone(), pu.clone(), dp.clone(), Some(strategy)) {
                            Ok(r) => json!({"ok": {"sig": signature(r.relation()), "dp_event": r.dp_event().to_string()}}),
                            Err(e) => json!({"err": e.to_string()}),
                        });
                }
                json!({"ok": out})
            }
            // ------------------------------------------------------------ engine S: rewritten relations as IR
            "rewrite" => {
                let tables = tables_from(&job["tables"])?;
                let pu = privacy_unit_from(&job["privacy_unit"])?;
                let dp = dp_parameters_from(&job["dp"])?;
                let sd = synthetic_from(&job["synthetic"], &tables);
                let sql_text = job["sql"].as_str().ok_or("sql")?.to_string();
                let mode = job["mode"].as_str().unwrap_or("dp");
                let relation = match parse_relation(&tables, &sql_text) {
                    Ok(r) => r,
                    Err(e) => return Ok(json!({"err": e})),
                };
                guarded(|| {
                    let res = match mode {
                        "dp" => relation.rewrite_with_differential_privacy(&tables, sd.clone(), pu.clone(), dp.clone()),
                        "pup_soft" => relation.rewrite_as_privacy_unit_preserving(&tables, sd.clone(), pu.clone(), dp.clone(), Some(Strategy::Soft)),
                        _ => relation.rewrite_as_privacy_unit_preserving(&tables, sd.clone(), pu.clone(), dp.clone(), Some(Strategy::Hard)),
                    };
                    match res {
                        Ok(r) => {
                            let mut out = json!({"ok": {"original": relation_json(&relation), "rewritten": relation_json(r.relation()), "dp_event": dp_event_json(r.dp_event()), "dp_event_s": r.dp_event().to_string()}});
                            if job["render"].as_bool().unwrap_or(false) {
                                out["sql"] = render(r.relation());
                                out["sql_original"] = render(&relation);
                            }
                            out
                        }
                        Err(e) => json!({"err": e.to_string(), "original": relation_json(&relation)}),
                    }
                })
            }
            "score_table" => {
                // the weight the real Score visitor gives to each output property, and an additivity probe
                let tables = tables_from(&job["tables"])?;
                let (_, any) = tables.iter().next().ok_or("need one table")?;
                let leaf: &Relation = any;
                use qrlew::rewriting::Property;
                let props = [Property::Private, Property::SyntheticData, Property::PrivacyUnitPreserving, Property::DifferentiallyPrivate, Property::Published, Property::Public];
                guarded(|| {
                    let mut w = serde_json::Map::new();
                    for p in props {
                        let node = RelationWithRewritingRule::new(leaf, RewritingRule::new(vec![], p, Parameters::None), vec![]);
                        w.insert(format!("{:?}", p), json!(node.accept(Score)));
                    }
                    // additivity: parent(PUP) over child(Public) and child(DP)
                    let c1 = Arc::new(RelationWithRewritingRule::new(leaf, RewritingRule::new(vec![], Property::Public, Parameters::None), vec![]));
                    let c2 = Arc::new(RelationWithRewritingRule::new(leaf, RewritingRule::new(vec![], Property::DifferentiallyPrivate, Parameters::None), vec![]));
                    let parent = RelationWithRewritingRule::new(leaf, RewritingRule::new(vec![Property::Public, Property::DifferentiallyPrivate], Property::PrivacyUnitPreserving, Parameters::None), vec![c1, c2]);
                    json!({"ok": {"weights": w, "additivity_probe": parent.accept(Score)}})
                })
            }
            "dp_kernels" => {
                // concrete evaluation of the budget kernels (translator validation for C03/C04)
                use qrlew::differential_privacy::dp_event::{gaussian_noise, gaussian_noise_multiplier, gaussian_tau};
                let e = job["epsilon"].as_f64().ok_or("epsilon")?;
                let d = job["delta"].as_f64().ok_or("delta")?;
                let s = job["sensitivity"].as_f64().unwrap_or(1.0);
                let g = job["groups"].as_f64().unwrap_or(1.0);
                guarded(|| json!({"ok": {"gaussian_noise": gaussian_noise(e, d, s), "gaussian_noise_multiplier": gaussian_noise_multiplier(e, d), "gaussian_tau": gaussian_tau(e, d, g)}}))
            }
            "dp_split" => {
                use qrlew::differential_privacy::aggregates::DpAggregatesParameters;
                let e = job["epsilon"].as_f64().ok_or("epsilon")?;
                let d = job["delta"].as_f64().ok_or("delta")?;
                let n = job["n"].as_u64().ok_or("n")? as usize;
                guarded(|| {
                    let p = DpAggregatesParameters::new(e, d, 100, false, 1.0, 1.0).split(n);
                    json!({"ok": {"epsilon": p.epsilon, "delta": p.delta}})
                })
            }
            _ => return Err(format!("unknown op {op}")),
        })
    })())
}

pub fn dp_event_json(e: &qrlew::differential_privacy::dp_event::DpEvent) -> J {
    use qrlew::differential_privacy::dp_event::DpEvent;
    match e {
        DpEvent::NoOp => json!({"k": "NoOp"}),
        DpEvent::Gaussian { noise_multiplier } => json!({"k": "Gaussian", "noise_multiplier": noise_multiplier}),
        DpEvent::Laplace { noise_multiplier } => json!({"k": "Laplace", "noise_multiplier": noise_multiplier}),
        DpEvent::EpsilonDelta { epsilon, delta } => json!({"k": "EpsilonDelta", "epsilon": epsilon, "delta": delta}),
        DpEvent::Composed { events } => json!({"k": "Composed", "events": events.iter().map(dp_event_json).collect::<Vec<_>>()}),
        _ => json!({"k": "Other"}),
    }
}
