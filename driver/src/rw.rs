//! rewriting jobs (privacy-unit tracking, differential privacy, rule extraction)
use crate::codec::R;
use serde_json::Value as J;

pub fn run(_op: &str, _job: &J) -> Option<R<J>> {
    None
}
