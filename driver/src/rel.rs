//! relation-level jobs (parsing, IR dump, rendering; rewriting lives in rw.rs)
use crate::codec::*;
use crate::guarded;
use qrlew::data_type::DataType;
use qrlew::dialect_translation::{postgresql::PostgreSqlTranslator, sqlite::SQLiteTranslator, RelationWithTranslator};
use qrlew::hierarchy::Hierarchy;
use qrlew::builder::Ready as _;
use qrlew::relation::{
    field::Constraint, Field, JoinOperator, Relation, Schema, Table, Values, Variant as _,
};
use qrlew::sql::{self, relation::QueryWithRelations};
use qrlew::ast;
use qrlew::data_type::DataTyped;
use serde_json::{json, Value as J};
use std::sync::Arc;

pub fn integer_from(j: &J) -> R<qrlew::data_type::Integer> {
    // a number n -> exactly n rows (what TableBuilder::size does); [lo,hi] -> interval
    match j {
        J::Null => Ok(qrlew::data_type::Integer::from_min(0)),
        J::Array(a) if a.len() == 2 => Ok(qrlew::data_type::Integer::from_interval(j_i64(&a[0])?, j_i64(&a[1])?)),
        _ => Ok(qrlew::data_type::Integer::from_value(j_i64(j)?)),
    }
}

pub fn tables_from(j: &J) -> R<Hierarchy<Arc<Relation>>> {
    let mut out: Vec<(Vec<String>, Arc<Relation>)> = vec![];
    for t in j.as_array().ok_or("tables must be an array")? {
        let name = t["name"].as_str().ok_or("table name")?.to_string();
        let path: Vec<String> = match t["path"].as_array() {
            Some(p) => p.iter().map(|s| s.as_str().unwrap_or("").to_string()).collect(),
            None => vec![name.clone()],
        };
        if let Some(vals) = t["values"].as_array() {
            // a literal Values relation registered under `name` (its single column carries the same name)
            let vs: Vec<qrlew::data_type::value::Value> = vals.iter().map(|v| qrlew::data_type::value::Value::integer(v.as_i64().unwrap_or(0))).collect();
            let rel: Relation = Relation::values().name(name.clone()).values(vs).build();
            out.push((path, Arc::new(rel)));
            continue;
        }
        let mut fields = vec![];
        for f in t["fields"].as_array().ok_or("fields")? {
            let c = match f["constraint"].as_str() {
                Some("Unique") => Some(Constraint::Unique),
                Some("PrimaryKey") => Some(Constraint::PrimaryKey),
                Some("ForeignKey") => Some(Constraint::ForeignKey),
                _ => None,
            };
            fields.push(Field::new(f["name"].as_str().ok_or("field name")?.to_string(), json_to_dt(&f["dt"])?, c));
        }
        let table = Table::new(name, path.clone().into(), Schema::new(fields), integer_from(&t["size"])?);
        out.push((path, Arc::new(Relation::Table(table))));
    }
    Ok(out.into_iter().collect())
}

fn schema_json(s: &Schema) -> J {
    J::Array(
        s.iter()
            .map(|f| json!({"name": f.name(), "dt": dt_to_json(&f.data_type()), "dt_s": f.data_type().to_string(), "constraint": f.constraint().map(|c| format!("{:?}", c))}))
            .collect(),
    )
}

fn size_json(r: &qrlew::data_type::Integer) -> J {
    dt_to_json(&DataType::Integer(r.clone()))["iv"].clone()
}

pub fn relation_json(r: &Relation) -> J {
    let common = |k: &str, r: &Relation| json!({"k": k, "name": r.name(), "schema": schema_json(r.schema()), "size": size_json(r.size())});
    match r {
        Relation::Table(t) => {
            let mut j = common("Table", r);
            j["path"] = json!(t.path().iter().cloned().collect::<Vec<String>>());
            j
        }
        Relation::Map(m) => {
            let mut j = common("Map", r);
            j["projection"] = J::Array(m.named_exprs().iter().map(|(n, e)| json!([n, expr_to_json(e)])).collect());
            j["filter"] = m.filter().as_ref().map(expr_to_json).unwrap_or(J::Null);
            j["order_by"] = J::Array(m.order_by().iter().map(|o| json!([expr_to_json(&o.expr), o.asc])).collect());
            j["limit"] = json!(m.limit());
            j["offset"] = json!(m.offset());
            j["input"] = relation_json(m.input());
            j
        }
        Relation::Reduce(m) => {
            let mut j = common("Reduce", r);
            j["aggregate"] = J::Array(
                m.named_aggregates()
                    .iter()
                    .map(|(n, a)| {
                        let e: qrlew::expr::Expr = (*a).clone().into();
                        json!([n, expr_to_json(&e)])
                    })
                    .collect(),
            );
            j["group_by"] = J::Array(m.group_by().iter().map(|c| json!(c.iter().cloned().collect::<Vec<String>>())).collect());
            j["input"] = relation_json(m.input());
            j
        }
        Relation::Join(m) => {
            let mut j = common("Join", r);
            let (kind, on) = match m.operator() {
                JoinOperator::Inner(e) => ("Inner", Some(e)),
                JoinOperator::LeftOuter(e) => ("LeftOuter", Some(e)),
                JoinOperator::RightOuter(e) => ("RightOuter", Some(e)),
                JoinOperator::FullOuter(e) => ("FullOuter", Some(e)),
                JoinOperator::Cross => ("Cross", None),
            };
            j["kind"] = json!(kind);
            j["on"] = on.map(expr_to_json).unwrap_or(J::Null);
            j["field_inputs"] = J::Array(m.field_inputs().map(|(n, i)| json!([n, i.iter().cloned().collect::<Vec<String>>()])).collect());
            j["left"] = relation_json(m.left());
            j["right"] = relation_json(m.right());
            j
        }
        Relation::Set(m) => {
            let mut j = common("Set", r);
            j["operator"] = json!(format!("{:?}", m.operator()));
            j["quantifier"] = json!(format!("{:?}", m.quantifier()));
            j["left"] = relation_json(m.left());
            j["right"] = relation_json(m.right());
            j
        }
        Relation::Values(v) => {
            let mut j = common("Values", r);
            j["values"] = values_of(v);
            j
        }
    }
}

#[cfg(qrlew_verif)]
fn values_of(v: &Values) -> J {
    J::Array(v.verif_values().iter().map(value_to_json).collect())
}
#[cfg(not(qrlew_verif))]
fn values_of(_v: &Values) -> J {
    J::Null
}

pub fn render(r: &Relation) -> J {
    let pg = guarded(|| json!(ast::Query::from(RelationWithTranslator(r, PostgreSqlTranslator)).to_string()));
    let lite = guarded(|| json!(ast::Query::from(RelationWithTranslator(r, SQLiteTranslator)).to_string()));
    json!({"postgres": pg, "sqlite": lite})
}

pub fn parse_relation(tables: &Hierarchy<Arc<Relation>>, sql_text: &str) -> Result<Relation, String> {
    let q = sql::parse(sql_text).map_err(|e| format!("parse: {e}"))?;
    Relation::try_from(QueryWithRelations::new(&q, tables)).map_err(|e| format!("relation: {e}"))
}

pub fn run(op: &str, job: &J) -> Option<R<J>> {
    Some((|| -> R<J> {
        Ok(match op {
            "relation" => {
                let tables = tables_from(&job["tables"])?;
                let sql_text = job["sql"].as_str().ok_or("sql")?.to_string();
                guarded(|| match parse_relation(&tables, &sql_text) {
                    Ok(r) => {
                        let mut out = json!({"ok": relation_json(&r)});
                        if job["render"].as_bool().unwrap_or(false) {
                            out["sql"] = render(&r);
                        }
                        out
                    }
                    Err(e) => json!({"err": e}),
                })
            }
            _ => return crate::rw::run(op, job).unwrap_or_else(|| Err(format!("unknown op {op}"))),
        })
    })())
}
