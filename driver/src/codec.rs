//! JSON <-> qrlew DataType / Value / Expr (qrlew only serialises Value, and not in a form we want).
use chrono::{Datelike, NaiveDate, NaiveDateTime, NaiveTime, Timelike};
use qrlew::data_type::{self, intervals::Intervals, value::Value, DataType};
use qrlew::expr::{self, aggregate::Aggregate, function::Function, Expr, Identifier};
use serde_json::{json, Value as J};
use std::sync::Arc;

pub type R<T> = Result<T, String>;

fn i64s(v: i64) -> J {
    J::String(v.to_string())
}
fn f64s(v: f64) -> J {
    J::String(format!("0x{:016x}", v.to_bits()))
}
pub fn j_i64(j: &J) -> R<i64> {
    match j {
        J::String(s) => s.parse::<i64>().map_err(|e| format!("bad i64 {s}: {e}")),
        J::Number(n) => n.as_i64().ok_or_else(|| format!("bad i64 {n}")),
        _ => Err(format!("bad i64 {j}")),
    }
}
pub fn j_f64(j: &J) -> R<f64> {
    match j {
        J::String(s) if s.starts_with("0x") => u64::from_str_radix(&s[2..], 16)
            .map(f64::from_bits)
            .map_err(|e| format!("bad f64 {s}: {e}")),
        J::String(s) => s.parse::<f64>().map_err(|e| format!("bad f64 {s}: {e}")),
        J::Number(n) => n.as_f64().ok_or_else(|| format!("bad f64 {n}")),
        _ => Err(format!("bad f64 {j}")),
    }
}

const NANOS_PER_DAY: i128 = 86_400_000_000_000;
pub fn date_num(d: &NaiveDate) -> i64 {
    d.num_days_from_ce() as i64
}
pub fn num_date(n: i64) -> R<NaiveDate> {
    NaiveDate::from_num_days_from_ce_opt(n as i32).ok_or_else(|| format!("bad date {n}"))
}
pub fn time_num(t: &NaiveTime) -> i64 {
    t.num_seconds_from_midnight() as i64 * 1_000_000_000 + t.nanosecond() as i64
}
pub fn num_time(n: i64) -> R<NaiveTime> {
    NaiveTime::from_num_seconds_from_midnight_opt((n / 1_000_000_000) as u32, (n % 1_000_000_000) as u32)
        .ok_or_else(|| format!("bad time {n}"))
}
pub fn datetime_num(d: &NaiveDateTime) -> i128 {
    date_num(&d.date()) as i128 * NANOS_PER_DAY + time_num(&d.time()) as i128
}
pub fn num_datetime(n: i128) -> R<NaiveDateTime> {
    let days = n.div_euclid(NANOS_PER_DAY);
    let rem = n.rem_euclid(NANOS_PER_DAY);
    Ok(NaiveDateTime::new(num_date(days as i64)?, num_time(rem as i64)?))
}
fn j_i128(j: &J) -> R<i128> {
    match j {
        J::String(s) => s.parse::<i128>().map_err(|e| format!("bad i128 {s}: {e}")),
        J::Number(n) => n.as_i64().map(|x| x as i128).ok_or_else(|| format!("bad i128 {n}")),
        _ => Err(format!("bad i128 {j}")),
    }
}

fn iv_json<B: data_type::intervals::Bound, F: Fn(&B) -> J>(iv: &Intervals<B>, f: F) -> J {
    J::Array(iv.iter().map(|[a, b]| json!([f(a), f(b)])).collect())
}

pub fn dt_to_json(dt: &DataType) -> J {
    match dt {
        DataType::Null => json!({"t":"Null"}),
        DataType::Unit(_) => json!({"t":"Unit"}),
        DataType::Boolean(b) => json!({"t":"Boolean","iv": iv_json(b, |x| J::Bool(*x))}),
        DataType::Integer(i) => json!({"t":"Integer","iv": iv_json(i, |x| i64s(*x))}),
        DataType::Enum(e) => {
            json!({"t":"Enum","vals": e.values().into_iter().map(|(s,i)| json!([s, i64s(i)])).collect::<Vec<_>>()})
        }
        DataType::Float(f) => json!({"t":"Float","iv": iv_json(f, |x| f64s(*x))}),
        DataType::Text(t) => json!({"t":"Text","iv": iv_json(t, |x| J::String(x.clone()))}),
        DataType::Bytes(_) => json!({"t":"Bytes"}),
        DataType::Struct(s) => {
            json!({"t":"Struct","fields": s.fields().iter().map(|(n,t)| json!([n, dt_to_json(t)])).collect::<Vec<_>>()})
        }
        DataType::Union(s) => {
            json!({"t":"Union","fields": s.fields().iter().map(|(n,t)| json!([n, dt_to_json(t)])).collect::<Vec<_>>()})
        }
        DataType::Optional(o) => json!({"t":"Optional","of": dt_to_json(o.data_type())}),
        DataType::List(l) => json!({"t":"List","of": dt_to_json(l.data_type()), "size": iv_json(l.size(), |x| i64s(*x))}),
        DataType::Set(l) => json!({"t":"Set","of": dt_to_json(l.data_type()), "size": iv_json(l.size(), |x| i64s(*x))}),
        DataType::Array(a) => json!({"t":"Array","of": dt_to_json(a.data_type()), "shape": a.shape()}),
        DataType::Date(d) => json!({"t":"Date","iv": iv_json(d, |x| i64s(date_num(x)))}),
        DataType::Time(d) => json!({"t":"Time","iv": iv_json(d, |x| i64s(time_num(x)))}),
        DataType::DateTime(d) => json!({"t":"DateTime","iv": iv_json(d, |x| J::String(datetime_num(x).to_string()))}),
        DataType::Duration(d) => {
            json!({"t":"Duration","iv": iv_json(d, |x| J::String(x.num_nanoseconds().map(|n| n.to_string()).unwrap_or_else(|| format!("{}s", x.num_seconds()))))})
        }
        DataType::Id(i) => json!({"t":"Id","unique": i.unique()}),
        DataType::Function(f) => json!({"t":"Function","dom": dt_to_json(f.domain()), "cod": dt_to_json(f.co_domain())}),
        DataType::Any => json!({"t":"Any"}),
    }
}

fn iv_from<B: data_type::intervals::Bound, F: Fn(&J) -> R<B>>(j: &J, f: F) -> R<Intervals<B>> {
    let mut r = Intervals::<B>::empty();
    for p in j.as_array().ok_or("iv not array")? {
        let a = f(&p[0])?;
        let b = f(&p[1])?;
        r = r.union_interval(a, b);
    }
    Ok(r)
}

fn fields_from(j: &J) -> R<Vec<(String, Arc<DataType>)>> {
    j.as_array()
        .ok_or("fields not array")?
        .iter()
        .map(|p| Ok((p[0].as_str().ok_or("field name")?.to_string(), Arc::new(json_to_dt(&p[1])?))))
        .collect()
}

pub fn json_to_dt(j: &J) -> R<DataType> {
    let t = j["t"].as_str().ok_or_else(|| format!("no t in {j}"))?;
    Ok(match t {
        "Null" => DataType::Null,
        "Unit" => DataType::unit(),
        "Any" => DataType::Any,
        "Bytes" => DataType::bytes(),
        "Boolean" => DataType::Boolean(iv_from(&j["iv"], |x| x.as_bool().ok_or("bool".to_string()))?),
        "Integer" => DataType::Integer(iv_from(&j["iv"], j_i64)?),
        "Float" => DataType::Float(iv_from(&j["iv"], j_f64)?),
        "Text" => DataType::Text(iv_from(&j["iv"], |x| x.as_str().map(|s| s.to_string()).ok_or("str".to_string()))?),
        "Date" => DataType::Date(iv_from(&j["iv"], |x| num_date(j_i64(x)?))?),
        "Time" => DataType::Time(iv_from(&j["iv"], |x| num_time(j_i64(x)?))?),
        "DateTime" => DataType::DateTime(iv_from(&j["iv"], |x| num_datetime(j_i128(x)?))?),
        "Duration" => DataType::Duration(iv_from(&j["iv"], |x| Ok(chrono::Duration::nanoseconds(j_i64(x)?)))?),
        "Id" => DataType::id(),
        "Enum" => {
            let v: R<Vec<(String, i64)>> = j["vals"]
                .as_array()
                .ok_or("vals")?
                .iter()
                .map(|p| Ok((p[0].as_str().ok_or("name")?.to_string(), j_i64(&p[1])?)))
                .collect();
            DataType::Enum(data_type::Enum::new(v?.into()))
        }
        "Struct" => DataType::Struct(data_type::Struct::new(fields_from(&j["fields"])?)),
        "Union" => DataType::Union(data_type::Union::new(fields_from(&j["fields"])?)),
        "Optional" => DataType::Optional(data_type::Optional::new(Arc::new(json_to_dt(&j["of"])?))),
        "List" => DataType::List(data_type::List::new(Arc::new(json_to_dt(&j["of"])?), iv_from(&j["size"], j_i64)?)),
        "Set" => DataType::Set(data_type::Set::new(Arc::new(json_to_dt(&j["of"])?), iv_from(&j["size"], j_i64)?)),
        "Array" => {
            let shape: Vec<usize> =
                j["shape"].as_array().ok_or("shape")?.iter().map(|x| x.as_u64().unwrap_or(0) as usize).collect();
            DataType::Array(data_type::Array::new(Arc::new(json_to_dt(&j["of"])?), shape.into()))
        }
        "Function" => DataType::function(json_to_dt(&j["dom"])?, json_to_dt(&j["cod"])?),
        _ => return Err(format!("unknown type tag {t}")),
    })
}

pub fn value_to_json(v: &Value) -> J {
    match v {
        Value::Unit(_) => json!({"t":"Unit"}),
        Value::Boolean(b) => json!({"t":"Boolean","v": **b}),
        Value::Integer(i) => json!({"t":"Integer","v": i64s(**i)}),
        Value::Enum(e) => json!({"t":"Enum","v": i64s(e.0), "s": e.decode().unwrap_or_default()}),
        Value::Float(f) => json!({"t":"Float","v": f64s(**f), "r": format!("{:e}", **f)}),
        Value::Text(t) => json!({"t":"Text","v": (**t).clone()}),
        Value::Bytes(b) => json!({"t":"Bytes","v": (**b).clone()}),
        Value::Struct(s) => {
            json!({"t":"Struct","fields": s.fields().iter().map(|(n,v)| json!([n, value_to_json(v)])).collect::<Vec<_>>()})
        }
        Value::Union(u) => json!({"t":"Union","field": u.0.clone(), "v": value_to_json(&u.1)}),
        Value::Optional(o) => match &**o {
            Some(x) => json!({"t":"Optional","v": value_to_json(x)}),
            None => json!({"t":"Optional","v": J::Null}),
        },
        Value::List(l) => json!({"t":"List","v": l.to_vec().iter().map(value_to_json).collect::<Vec<_>>()}),
        Value::Set(s) => json!({"t":"Set","v": s.iter().map(value_to_json).collect::<Vec<_>>()}),
        Value::Array(a) => json!({"t":"Array","v": a.0.iter().map(value_to_json).collect::<Vec<_>>(), "shape": a.1.clone()}),
        Value::Date(d) => json!({"t":"Date","v": i64s(date_num(d))}),
        Value::Time(d) => json!({"t":"Time","v": i64s(time_num(d))}),
        Value::DateTime(d) => json!({"t":"DateTime","v": datetime_num(d).to_string()}),
        Value::Duration(d) => json!({"t":"Duration","v": d.num_nanoseconds().map(|n| n.to_string())}),
        Value::Id(i) => json!({"t":"Id","v": (**i).clone()}),
        Value::Function(_) => json!({"t":"Function"}),
    }
}

pub fn json_to_value(j: &J) -> R<Value> {
    let t = j["t"].as_str().ok_or_else(|| format!("no t in value {j}"))?;
    Ok(match t {
        "Unit" => Value::unit(),
        "Boolean" => Value::boolean(j["v"].as_bool().ok_or("bool")?),
        "Integer" => Value::integer(j_i64(&j["v"])?),
        "Enum" => {
            let v: R<Vec<(String, i64)>> = j["vals"]
                .as_array()
                .ok_or("vals")?
                .iter()
                .map(|p| Ok((p[0].as_str().ok_or("name")?.to_string(), j_i64(&p[1])?)))
                .collect();
            Value::enumeration(j_i64(&j["v"])?, v?)
        }
        "Float" => Value::float(j_f64(&j["v"])?),
        "Text" => Value::text(j["v"].as_str().ok_or("text")?),
        "Date" => Value::date(num_date(j_i64(&j["v"])?)?),
        "Time" => Value::time(num_time(j_i64(&j["v"])?)?),
        "DateTime" => Value::date_time(num_datetime(j_i128(&j["v"])?)?),
        "Duration" => Value::duration(chrono::Duration::nanoseconds(j_i64(&j["v"])?)),
        "Id" => Value::id(j["v"].as_str().ok_or("id")?),
        "Bytes" => Value::bytes(
            j["v"].as_array().ok_or("bytes")?.iter().map(|x| x.as_u64().unwrap_or(0) as u8).collect::<Vec<u8>>(),
        ),
        "Optional" => {
            if j["v"].is_null() {
                Value::none()
            } else {
                Value::some(json_to_value(&j["v"])?)
            }
        }
        "Struct" => {
            let f: R<Vec<(String, Arc<Value>)>> = j["fields"]
                .as_array()
                .ok_or("fields")?
                .iter()
                .map(|p| Ok((p[0].as_str().ok_or("name")?.to_string(), Arc::new(json_to_value(&p[1])?))))
                .collect();
            Value::Struct(data_type::value::Struct::new(f?))
        }
        "Union" => Value::union(j["field"].as_str().ok_or("field")?.to_string(), json_to_value(&j["v"])?),
        "List" => {
            let l: R<Vec<Value>> = j["v"].as_array().ok_or("list")?.iter().map(json_to_value).collect();
            Value::list(l?)
        }
        "Set" => {
            let l: R<Vec<Value>> = j["v"].as_array().ok_or("set")?.iter().map(json_to_value).collect();
            Value::set(l?)
        }
        _ => return Err(format!("unknown value tag {t}")),
    })
}

pub const FUNCTIONS: &[Function] = &[
    Function::Opposite, Function::Not, Function::Plus, Function::Minus, Function::Multiply, Function::Divide,
    Function::Modulo, Function::StringConcat, Function::Gt, Function::Lt, Function::GtEq, Function::LtEq,
    Function::Eq, Function::NotEq, Function::And, Function::Or, Function::Xor, Function::BitwiseOr,
    Function::BitwiseAnd, Function::BitwiseXor, Function::Exp, Function::Ln, Function::Log, Function::Abs,
    Function::Sin, Function::Cos, Function::Sqrt, Function::Pow, Function::Case, Function::CharLength,
    Function::Lower, Function::Upper, Function::Md5, Function::Position, Function::Pi, Function::CastAsText,
    Function::CastAsFloat, Function::CastAsInteger, Function::CastAsBoolean, Function::CastAsDateTime,
    Function::CastAsDate, Function::CastAsTime, Function::Least, Function::Greatest, Function::Rtrim,
    Function::Ltrim, Function::Substr, Function::SubstrWithSize, Function::Ceil, Function::Floor, Function::Round,
    Function::Trunc, Function::RegexpContains, Function::RegexpExtract, Function::RegexpReplace, Function::Newid,
    Function::Encode, Function::Decode, Function::Unhex, Function::CurrentDate, Function::CurrentTime,
    Function::CurrentTimestamp, Function::ExtractEpoch, Function::ExtractYear, Function::ExtractMonth,
    Function::ExtractDay, Function::ExtractHour, Function::ExtractMinute, Function::ExtractSecond,
    Function::ExtractMicrosecond, Function::ExtractMillisecond, Function::ExtractDow, Function::ExtractWeek,
    Function::Dayname, Function::FromUnixtime, Function::UnixTimestamp, Function::DateFormat, Function::Quarter,
    Function::DatetimeDiff, Function::Date, Function::InList, Function::Coalesce, Function::Sign, Function::Like,
    Function::Ilike, Function::Choose, Function::IsNull, Function::IsBool,
];

pub const AGGREGATES: &[Aggregate] = &[
    Aggregate::Min, Aggregate::Max, Aggregate::Median, Aggregate::NUnique, Aggregate::First, Aggregate::Last,
    Aggregate::Mean, Aggregate::MeanDistinct, Aggregate::List, Aggregate::Count, Aggregate::CountDistinct,
    Aggregate::Sum, Aggregate::SumDistinct, Aggregate::AggGroups, Aggregate::Std, Aggregate::StdDistinct,
    Aggregate::Var, Aggregate::VarDistinct,
];

pub fn function_name(f: &Function) -> (String, Option<usize>) {
    match f {
        Function::Concat(n) => ("Concat".into(), Some(*n)),
        Function::Random(n) => ("Random".into(), Some(*n)),
        _ => (format!("{:?}", f), None),
    }
}

pub fn function_from(name: &str, n: Option<usize>) -> R<Function> {
    match name {
        "Concat" => Ok(Function::Concat(n.unwrap_or(2))),
        "Random" => Ok(Function::Random(n.unwrap_or(0))),
        _ => FUNCTIONS.iter().copied().find(|f| format!("{:?}", f) == name).ok_or_else(|| format!("unknown function {name}")),
    }
}

pub fn aggregate_from(name: &str) -> R<Aggregate> {
    AGGREGATES.iter().copied().find(|f| format!("{:?}", f) == name).ok_or_else(|| format!("unknown aggregate {name}"))
}

pub fn expr_to_json(e: &Expr) -> J {
    match e {
        Expr::Column(c) => json!({"e":"Column","path": c.iter().cloned().collect::<Vec<String>>()}),
        Expr::Value(v) => json!({"e":"Value","v": value_to_json(v)}),
        Expr::Function(f) => {
            let (name, n) = function_name(&f.function());
            json!({"e":"Function","f": name, "n": n, "args": f.arguments().iter().map(expr_to_json).collect::<Vec<_>>()})
        }
        Expr::Aggregate(a) => {
            let ag = a.aggregate();
            let (name, q) = match ag {
                Aggregate::Quantile(q) => ("Quantile".to_string(), json!(q)),
                Aggregate::Quantiles(q) => ("Quantiles".to_string(), json!(q)),
                _ => (format!("{:?}", ag), J::Null),
            };
            json!({"e":"Aggregate","a": name, "q": q, "arg": expr_to_json(a.argument())})
        }
        Expr::Struct(s) => json!({"e":"Struct","s": s.to_string()}),
    }
}

pub fn json_to_expr(j: &J) -> R<Expr> {
    let e = j["e"].as_str().ok_or_else(|| format!("no e in expr {j}"))?;
    Ok(match e {
        "Column" => {
            let p: Vec<String> =
                j["path"].as_array().ok_or("path")?.iter().map(|x| x.as_str().unwrap_or("").to_string()).collect();
            Expr::Column(Identifier::from(p))
        }
        "Value" => Expr::Value(json_to_value(&j["v"])?),
        "Function" => {
            let f = function_from(j["f"].as_str().ok_or("f")?, j["n"].as_u64().map(|x| x as usize))?;
            let args: R<Vec<Arc<Expr>>> =
                j["args"].as_array().ok_or("args")?.iter().map(|a| json_to_expr(a).map(Arc::new)).collect();
            Expr::Function(expr::Function::new(f, args?))
        }
        "Aggregate" => {
            let a = aggregate_from(j["a"].as_str().ok_or("a")?)?;
            Expr::Aggregate(expr::Aggregate::new(a, Arc::new(json_to_expr(&j["arg"])?)))
        }
        _ => return Err(format!("unknown expr tag {e}")),
    })
}
