#!/usr/bin/env python3-vt
"""C01 - DP aggregates: true sensitivity never exceeds the calibrated clip bound.

For each aggregation query, privacy-unit definition and DpParameters the real `rewrite_with_differential_privacy` is run
(driver). In the returned relation every noise-adding projection  X + sigma * BoxMuller  is located structurally; the
returned DpEvent gives the recorded noise multiplier m, so sigma / m is the clipping bound the noise was scaled by.
The pre-noise relation is executed symbolically (engine S) on neighbouring databases D and D' = D minus every protected
row owned by one unit (ownership through the declared foreign-key paths): key columns follow an exhaustively enumerated
layout (which row belongs to which unit / group), every measure value and NULL flag is a solver variable. The solver is
asked for values with   sum over groups (X(D) - X(D'))^2  >  (sigma / m)^2.
Counterexamples are replayed on SQLite (pre-noise relation rendered by the library, on D and D').
"""
import os, sys, json, itertools, re, math
sys.path.insert(0, os.path.join(os.path.dirname(os.path.abspath(__file__)), "..", "lib"))
sys.path.insert(0, os.path.dirname(os.path.abspath(__file__)))
import mir, smt, kern, driver, symrel, sqlrun, exprsem, pucat, dpir, gen
from symrel import Row, Rel, cell_eq
from common import Check, seed
from smt import land, lor, lnot, ite

PID = "C01"

PROGRAMS = [
    "SELECT sum(amount) AS s FROM orders",
    "SELECT count(amount) AS n, sum(amount) AS s FROM orders",
    "SELECT kind, sum(amount) AS s FROM orders GROUP BY kind",
    "SELECT kind, avg(amount) AS m, count(*) AS n FROM orders GROUP BY kind",
    "SELECT sum(age) AS s FROM users",
    "SELECT sum(o.amount) AS s FROM orders AS o JOIN users AS u ON o.user_id = u.id",
    "SELECT u.city AS city, sum(o.amount) AS s FROM orders AS o JOIN users AS u ON o.user_id = u.id GROUP BY u.city",
    "SELECT sum(price) AS s FROM items",
    "SELECT sum(amount) AS s FROM orders WHERE amount > 0",
    "SELECT kind, sum(qty) AS q, count(qty) AS n FROM orders GROUP BY kind",
    "SELECT count(DISTINCT kind) AS k FROM orders",
    "SELECT sum(amount * 2) AS s2 FROM orders",
    "SELECT sum(bal) AS b FROM orders",
    "SELECT kind, sum(bal) AS b, count(bal) AS n FROM orders GROUP BY kind",
    # joins of two protected tables that do not follow the privacy-unit path (the unit equality added by the tracker is what bounds the sensitivity)
    "SELECT sum(o.amount) AS s FROM orders AS o JOIN users AS u ON o.kind = u.city",
    "SELECT sum(a.amount) AS s, count(b.amount) AS n FROM orders AS a JOIN orders AS b ON a.kind = b.kind",
    "SELECT sum(u.age) AS s FROM users AS u LEFT JOIN orders AS o ON u.id = o.user_id",
    # a column whose range is far below 1: the clip bound C is below 1 and norm / norm^2 differ in the other direction
    "SELECT sum(frac) AS f FROM orders",
    "SELECT kind, flag, sum(amount) AS s FROM orders GROUP BY kind, flag",
]

PARAMS = {
    "default": dict(epsilon=1.0, delta=1e-3),
    "mult1": dict(epsilon=1.0, delta=1e-3, privacy_unit_max_multiplicity=1.0, privacy_unit_max_multiplicity_share=0.0001),
    # multiplicity estimate = min(100, size * share): with share 1 a unit may own every row of the (small) table without being clipped
    "share1": dict(epsilon=1.0, delta=1e-3, privacy_unit_max_multiplicity=100.0, privacy_unit_max_multiplicity_share=1.0),
}


def layouts(K, tier):
    """concrete key layouts: which unit owns each order, which group it is in, which order owns each item; up to renaming"""
    outs = []
    uids = list(range(K))
    order_users = list(itertools.product(uids, repeat=K))
    kinds = list(itertools.product([1, 2], repeat=K))
    pres = [tuple([True] * K)] + ([tuple([True] * (K - 1) + [False])] if tier != "quick" else [])
    for ou in order_users:
        for kd in kinds:
            if kd[0] != 1:
                continue   # group renaming: the first row is in group 1
            for pr in pres:
                outs.append(dict(order_user=ou, kind=kd, order_present=pr))
    return outs


def fixed_for(layout, K):
    fx = {
        "users": {"present": [True] * K},
        "orders": {"present": list(layout["order_present"])},
        "items": {"present": [True] * K},
    }
    for i in range(K):
        fx["users"][("id", i)] = i
        fx["users"][("city", i)] = 1 + (i % 2)
        fx["orders"][("id", i)] = i
        fx["orders"][("user_id", i)] = layout["order_user"][i]
        fx["orders"][("kind", i)] = layout["kind"][i]
        fx["orders"][("flag", i)] = i % 2   # a second public key, concrete like the first
        fx["items"][("id", i)] = i
        # referential integrity: an item refers to an order that exists (a row without an owner has no privacy unit at all)
        fx["items"][("order_id", i)] = (i % K) if layout["order_present"][i % K] else 0
    return fx


def cols_of(e, out=None):
    out = set() if out is None else out
    if isinstance(e, dict):
        if e.get("e") == "Column":
            out.add(e["path"][-1])
        for v in e.values():
            cols_of(v, out)
    elif isinstance(e, list):
        for v in e:
            cols_of(v, out)
    return out


def sqlite_fix(sql):
    """SQLite has no column-alias list on a derived table: (VALUES ..) AS "t" ("c") -> SELECT column1 AS "c" .."""
    def rep(m):
        cols = [c.strip() for c in m.group(3).split(",")]
        sel = ", ".join("column%d AS %s" % (i + 1, c) for i, c in enumerate(cols))
        return "(SELECT %s FROM (VALUES %s))" % (sel, m.group(1))
    return re.sub(r"\(SELECT \* FROM \(VALUES ((?:\([^()]*\),? ?)+)\) AS (\"[^\"]+\") \(([^()]*)\)\)", rep, sql)

G = {}


def build_task(t):
    """one (program, noised column, layout, unit) -> solver queries (runs in a forked worker)"""
    fns, tabs, pus, K = G["fns"], G["tabs"], G["pus"], G["K"]
    pu = pus[t["pun"]]
    P, X, lay, ustar, keycols = t["P"], t["X"], t["lay"], t["ustar"], t["keycols"]
    out = []
    try:
        ctx = symrel.Ctx(fns)
        fx = fixed_for(lay, K)
        db, ctx_tables = {}, {}
        for p_, tj in symrel.tables_of(P).items():
            r = symrel.make_table(ctx, tj, K, fixed=fx.get(p_[0]))
            db[p_] = r
            ctx_tables[p_] = (tj, r)
        for tt in pu["tables"]:
            if (tt["table"],) not in db:
                tj0 = [x for x in tabs if x["name"] == tt["table"]][0]
                tj2 = dict(name=tj0["name"], path=[tj0["name"]], size=[[str(tj0["size"][0]), str(tj0["size"][1])]], schema=[dict(name=f["name"], dt=f["dt"], constraint=f["constraint"]) for f in tj0["fields"]])
                r = symrel.make_table(ctx, tj2, K, fixed=fx.get(tt["table"]))
                db[(tt["table"],)] = r
                ctx_tables[(tt["table"],)] = (tj2, r)
        owned = pucat.owner_terms(pu, db, str(ustar))
        db2 = {}
        for p_, r in db.items():
            if p_[0] in owned:
                db2[p_] = Rel(r.cols, [Row(land([x.p, lnot(o)]), x.cells) for x, o in zip(r.rows, owned[p_[0]])], r.name)
            else:
                db2[p_] = r
        RA = symrel.eval_rel(ctx, P, db, {})
        RB = symrel.eval_rel(ctx, P, db2, {})

        def xval(row, tag):
            c = ctx.ev.eval(X, symrel.env_of(row), "%s_%s" % (t["nmap"], tag))
            v = "(to_real %s)" % c.t if c.ty == "i64" else c.t
            return ctx.name(ite(c.n, "0.0", v), "f64", "x")
        xa = [xval(r, "a%d" % i) for i, r in enumerate(RA.rows)]
        xb = [xval(r, "b%d" % i) for i, r in enumerate(RB.rows)]
    except exprsem.Unsupported as ex:
        return dict(unsupported=str(ex)[:50])
    same = lambda a, b: land([cell_eq(a.cells[k], b.cells[k]) for k in keycols])
    terms = []
    for i, a in enumerate(RA.rows):
        partner = "(+ 0.0 %s)" % " ".join(ite(land([b.p, same(a, b)]), xb[j], "0.0") for j, b in enumerate(RB.rows))
        dlt = ctx.name("(- %s %s)" % (xa[i], partner), "f64", "dlt")
        terms.append(ite(a.p, "(* %s %s)" % (dlt, dlt), "0.0"))
    for j, b in enumerate(RB.rows):
        lonely = land([b.p] + [lnot(land([a.p, same(a, b)])) for a in RA.rows])
        terms.append(ite(lonely, "(* %s %s)" % (xb[j], xb[j]), "0.0"))
    d2 = ctx.name("(+ 0.0 %s)" % " ".join(terms), "f64", "d2")
    nopanic = [lnot(p) for p in ctx.bank.panics]
    import fractions
    C = t["C"]
    bound = smt.real_lit(fractions.Fraction(C * C * (1 + 1e-9)))
    vals = symrel.value_names(ctx_tables)
    qid = "sens|%d|%s|%s|L%d|u%d" % (t["qi"], t["nmap"], t["col"], t["li"], ustar)
    q = dict(id=qid, script=ctx.script(nopanic + ["(> %s %s)" % (d2, bound)]), values=vals, solvers=["cvc5", "z3new"])
    meta = dict(what="sens", sql=t["sql"], pu=t["pun"], prm=t["prm"], col=t["col"], sigma=t["sig"], m=t["m"], C=C, ustar=ustar, layout=lay, ctx_tables=ctx_tables, P=P, X=X, keycols=keycols, rendered=t["rendered"])
    out.append((q, meta))
    if t["li"] == 0 and ustar == 0:
        # tightness twin: half the bound must be refutable on some layout, otherwise the encoding proves too much
        half = smt.real_lit(fractions.Fraction(C * C / 4))
        out.append((dict(id="T|" + qid, script=ctx.script(nopanic + ["(> %s %s)" % (d2, half)]), values=[], solvers=["cvc5", "z3new"]), dict(what="tight", sql=t["sql"], col=t["col"])))
    return dict(queries=out)


def main():
    tier = sys.argv[1] if len(sys.argv) > 1 else "quick"
    ck = Check(PID, tier, "translation_validation")
    tq = 12.0 if tier == "quick" else 180.0
    K = int(os.environ.get("VERIF_K", "2"))   # thorough widens layouts / configurations / programs; VERIF_K=3 is the (slow) deeper row bound
    driver.build()
    path, _ = mir.dump_mir()
    fns = mir.parse_mir(path)
    tabs = pucat.tables(K)
    pus = pucat.pu_defs()
    configs = [("chain", "default"), ("chain", "mult1")] if tier == "quick" else [(p, q) for p in pus for q in PARAMS]
    jobs, keys = [], []
    progs_ = PROGRAMS[:int(os.environ["C01_PROGS"])] if os.environ.get("C01_PROGS") else (PROGRAMS if tier != "quick" else [PROGRAMS[i] for i in (0, 1, 2, 3, 5, 6, 7, 9, 12, 13, 14, 16, 17)])
    import random as _random
    from common import seed as _seed
    rnd = _random.Random(_seed() * 104729 + 1)
    extra, seen = [], set(progs_)
    while len(extra) < (2 if tier == "quick" else 30) and not os.environ.get("C01_PROGS"):
        q = pucat.random_dp_program(rnd, joins=(tier != "quick"))[0]
        if q not in seen:
            seen.add(q)
            extra.append(q)
    progs_ = list(progs_) + extra
    for sql in progs_:
        for pun, prm in configs:
            jobs.append(dict(op="rewrite", mode="dp", tables=tabs, privacy_unit=pus[pun], dp=PARAMS[prm], synthetic=False, sql=sql, render=True))
            keys.append((sql, pun, prm))
    answers = driver.parallel_batch(jobs, workers=12, timeout=180.0)
    lays = layouts(K, tier)
    queries, meta = [], {}
    tasks = []
    G.update(fns=fns, tabs=tabs, pus=pus, K=K)
    stats = dict(programs=0, refused=0, unsupported={}, noised_columns=0, pattern_missing=0)
    for qi, ((sql, pun, prm), ans) in enumerate(zip(keys, answers)):
        if "panic" in ans:
            ck.note("rewrite_with_differential_privacy panics on `%s` (%s, %s): %s (C13/C18 territory)" % (sql, pun, prm, ans["panic"]))
            continue
        if "ok" not in ans:
            stats["refused"] += 1
            continue
        rel = ans["ok"]["rewritten"]
        ms = dpir.gaussian_multipliers(ans["ok"]["dp_event"])
        nmaps = dpir.noise_maps(rel)
        if not nmaps:
            if ms:
                ck.inconclusive("`%s` (%s): the event lists Gaussian mechanisms but no noise-adding projection was found in the relation" % (sql, pun))
                continue
            prot_read = {p_[0] for p_ in symrel.tables_of(rel)} & {t["table"] for t in pus[pun]["tables"]}
            if not prot_read:
                continue   # public data only
            # protected rows are read but nothing is noised: every numeric output column then has sigma = 0, i.e. clip bound 0
            nmaps = [(dict(name="root:" + rel["name"], input=rel), [(f["name"], dict(e="Column", path=[f["name"]]), 0.0, None) for f in rel["schema"] if symrel.base_dt(f["dt"])["t"] in ("Integer", "Float")])]
            ms = [1.0]
            unnoised = True
        else:
            unnoised = False
        stats["programs"] += 1
        pu = pus[pun]
        protected = {t["table"] for t in pu["tables"]}
        for nmap, cols in nmaps:
            usable = [(name, X, sig) for name, X, sig, e in cols if X is not None]
            if len(usable) != len(cols):
                stats["pattern_missing"] += 1
                ck.inconclusive("`%s` (%s): a projection of %s uses Random() outside the X + sigma * noise pattern" % (sql, pun, nmap["name"]))
            P = nmap["input"]
            aggcols = set()
            for name, X, sig in usable:
                aggcols |= cols_of(X)
            keycols = [f["name"] for f in P["schema"] if f["name"] not in aggcols]
            if unnoised:
                keycols = []   # compare the output as a whole: any change at all exceeds a clip bound of 0
            for name, X, sig in usable:
                stats["noised_columns"] += 1
                if not ms:
                    ck.violation("dp=noise-without-event", "`%s` (%s): column %s is noised with sigma %s but the returned event records no Gaussian mechanism" % (sql, pun, name, sig), dict(sql=sql))
                    continue
                # the event is an unnamed list: the column must satisfy the inequality for the multiplier it is matched with;
                # with one distinct multiplier the matching is trivial, otherwise the largest clip bound any entry allows is used
                # and the count of entries is checked against the count of noised columns by C03
                m = min(ms)
                C = sig / m if m > 0 else float("inf")
                for li, lay in enumerate(lays):
                    for ustar in range(min(K, 2)):
                        tasks.append(dict(qi=qi, sql=sql, pun=pun, prm=prm, nmap=nmap["name"], P=P, X=X, col=name, sig=sig, m=m, C=C, keycols=keycols, li=li, lay=lay, ustar=ustar,
                                          rendered=ans.get("sql", {}).get("sqlite")))
        if qi % 5 == 0:
            ck.sample(dict(sql=sql, privacy_unit=pun, params=prm, noised=[(n, s) for _, cs in nmaps for n, _, s, _ in cs], multipliers=ms))
    from common import budgeted
    built, results = budgeted(ck, tasks, build_task, lambda qs: smt.replayable_models(qs, smt.solve_all(qs, tq, workers=14, progress=500), tq, workers=14), tier)
    for res in built:
        if "unsupported" in res:
            stats["unsupported"][res["unsupported"]] = stats["unsupported"].get(res["unsupported"], 0) + 1
            continue
        for q, mt in res["queries"]:
            queries.append(q)
            meta[q["id"]] = mt
    ck.count(results)
    d = driver.Driver(60.0)
    n_tight = disagreements = 0
    tight_total = sum(1 for q in queries if q["id"].startswith("T|"))
    for r in results:
        info = meta[r["id"]]
        if info["what"] == "tight":
            n_tight += r["status"] == "sat"
            continue
        if r["status"] != "sat":
            continue
        disagreements += 1
        # ---- replay on SQLite: pre-noise relation on D and D'
        dbm = symrel.model_db(info["ctx_tables"], r["model"])
        pu = pus[info["pu"]]
        owners = pucat.py_owner(pu, dbm)
        db2 = {p_: ([row for row, o in zip(rows, owners[p_[0]]) if o != info["ustar"]] if p_[0] in owners else rows) for p_, rows in dbm.items()}
        xsql = d.call(dict(op="expr_sql", expr=info["X"])).get("ok")
        sql_p = None
        m_ = re.search(r"^(WITH .*\)) SELECT \* FROM \"[^\"]+\"\s*$", info["rendered"] or "", re.S)
        if m_ and xsql:
            keys_sql = ", ".join('"%s"' % k for k in info["keycols"])
            sql_p = sqlite_fix('%s SELECT %s(%s) AS "x" FROM "%s"' % (m_.group(1), (keys_sql + ", ") if keys_sql else "", xsql, info["P"]["name"]))
        shown = {".".join(p_): rows for p_, rows in dbm.items()}
        try:
            tj = {p_: t for p_, (t, _) in info["ctx_tables"].items()}
            res = []
            for dbx in (dbm, db2):
                con = sqlrun.connect(random_value=0.5)
                sqlrun.load(con, tj, dbx)
                names, rows = sqlrun.run(con, sql_p)
                res.append({tuple(row[:-1]): (row[-1] or 0.0) for row in rows})
        except Exception as ex:
            ck.inconclusive("SQLite replay failed for `%s` (%s, %s) column %s: %s" % (info["sql"], info["pu"], info["prm"], info["col"], str(ex)[:200]))
            continue
        d2 = sum((res[0].get(k, 0.0) - res[1].get(k, 0.0)) ** 2 for k in set(res[0]) | set(res[1]))
        if d2 > info["C"] ** 2 * (1 + 1e-6):
            ck.violation(("dp=protected-rows-released-without-noise/%s" if info["sigma"] == 0.0 else "dp=sensitivity-exceeds-clip-bound/%s") % re.sub(r"\(.*", "", info["sql"].split("SELECT ")[1].split(" FROM")[0].split(",")[-1].strip()),
                         "`%s` (%s, %s): removing unit %d changes the pre-noise column %s by %.6g in L2 norm over the groups, but its noise sigma=%.6g corresponds to a clip bound sigma/m = %.6g; D = %s" % (
                             info["sql"], info["pu"], info["prm"], info["ustar"], info["col"], math.sqrt(d2), info["sigma"], info["C"], shown),
                         dict(sql=info["sql"], pu=info["pu"], params=info["prm"], db=shown, unit=info["ustar"], column=info["col"], sigma=info["sigma"], multiplier=info["m"], change=math.sqrt(d2), pre_noise_sql=sql_p))
        else:
            ck.inconclusive("sensitivity counterexample did not reproduce for `%s` (%s, %s) column %s: SQLite change %.6g <= %.6g on %s" % (info["sql"], info["pu"], info["prm"], info["col"], math.sqrt(d2), info["C"], shown))
    d.close()
    if tight_total and n_tight == 0:
        ck.inconclusive("no tightness twin is satisfiable: the encoding refutes even half the clip bound everywhere (vacuous?)")
    cov = dict(
        exploration=getattr(ck, "budget", None), programs=stats["programs"], disagreements_checked=disagreements, refused_by_rewriter=stats["refused"], skipped_unsupported=stats["unsupported"], noised_columns=stats["noised_columns"],
        layouts=len(lays), tightness_twins_sat="%d/%d" % (n_tight, tight_total),
        bounds=dict(rows_per_protected_table=K, units="<= %d" % K, groups="<= 2", layouts="all assignments of rows to units and groups (up to renaming of the first group)",
                    outside=["more than %d rows per table" % K, "float rounding (reals)", "var / std aggregates, nested DP sub-queries"]),
        evaluations=len(queries), distinct_nontrivial=len(set(q["script"] for q in queries)),
    )
    return ck.finish(cov, assumptions=["the clip bound an aggregate's noise was scaled by is sigma / (recorded noise multiplier)", "ownership through the declared foreign-key paths (referred ids are primary keys)",
                                       "lib/symrel.py semantics over reals; reported violations are reproduced by SQLite on the pre-noise relation rendered by the library"])


if __name__ == "__main__":
    sys.exit(main())
