#!/usr/bin/env python3-vt
"""C07 - relation schemas and size bounds contain what real execution produces.

The real compiler turns each SQL program into a Relation (driver); the relation is then executed SYMBOLICALLY (engine S,
lib/symrel.py) on a database whose tables have K row slots with symbolic presence, values and NULLs constrained only by
the declared schema, sizes and constraints. For the root and for every inner node the solver is asked for a database on
which some produced row has a cell outside the declared column type (or NULL in a non optional column) or the number of
rows leaves the declared size interval. Counterexample databases are loaded into SQLite and the SQL the library renders
is executed; only SQLite-confirmed violations are reported.
A symbolic lemma on Map::size (from its MIR) covers LIMIT/OFFSET arithmetic for every input size, limit and offset.
"""
import os, sys, json, re
sys.path.insert(0, os.path.join(os.path.dirname(os.path.abspath(__file__)), "..", "lib"))
import mir, smt, kern, driver, symrel, progs, sqlrun, exprsem
from common import Check, seed
from smt import land, lor, lnot

PID = "C07"


def build_queries(ck, fns, tables_json, programs, K, want=("schema", "size"), per_node=True):
    """-> queries, meta; shared with C14 (want=('unique',))"""
    jobs = [dict(op="relation", tables=tables_json, sql=sql, render=True) for sql in programs]
    answers = driver.parallel_batch(jobs, workers=12, timeout=60.0)
    queries, meta = [], {}
    stats = dict(programs=0, refused=0, unsupported={}, panics=0)
    for pi, (sql, ans) in enumerate(zip(programs, answers)):
        if "panic" in ans:
            stats["panics"] += 1
            ck.note("compiling `%s` panics (C18 territory): %s" % (sql, ans["panic"]))
            continue
        if "ok" not in ans:
            stats["refused"] += 1
            continue
        rel = ans["ok"]
        try:
            ctx = symrel.Ctx(fns)
            tabs = symrel.tables_of(rel)
            db, ctx_tables = {}, {}
            for path, tj in tabs.items():
                r = symrel.make_table(ctx, tj, K)
                db[path] = r
                ctx_tables[path] = (tj, r)
            memo = {}
            root = symrel.eval_rel(ctx, rel, db, memo)
        except exprsem.Unsupported as ex:
            k = str(ex)[:50]
            stats["unsupported"][k] = stats["unsupported"].get(k, 0) + 1
            continue
        stats["programs"] += 1
        names = symrel.value_names(ctx_tables)
        nodes = symrel.inner_nodes(rel) if per_node else [rel]
        seen = set()
        nopanic = [lnot(p) for p in ctx.bank.panics]
        for node in nodes:
            if node["name"] in seen or node["k"] == "Table":
                continue
            seen.add(node["name"])
            r = memo[node["name"]]
            common = dict(sql=sql, node=node["name"], kind=node["k"], rel=rel, node_json=node, ctx_tables=ctx_tables, rendered=ans.get("sql", {}), is_root=node["name"] == rel["name"], tables=tabs)
            if "schema" in want:
                bads = symrel.schema_violation(node, r)
                by_col = {}
                for col, b in bads:
                    by_col.setdefault(col, []).append(b)
                for col, bs in by_col.items():
                    qid = "schema|%d|%s|%s" % (pi, node["name"], col)
                    queries.append(dict(id=qid, script=ctx.script(nopanic + [lor(bs)]), values=names))
                    meta[qid] = dict(common, what="schema", col=col)
            if "size" in want:
                bad, cnt = symrel.size_violation(node, r)
                qid = "size|%d|%s" % (pi, node["name"])
                queries.append(dict(id=qid, script=ctx.script(nopanic + [bad]), values=names))
                meta[qid] = dict(common, what="size")
            if "unique" in want:
                for col, b in symrel.unique_violation(node, r):
                    qid = "unique|%d|%s|%s" % (pi, node["name"], col)
                    queries.append(dict(id=qid, script=ctx.script(nopanic + [b]), values=names))
                    meta[qid] = dict(common, what="unique", col=col)
        if pi % 9 == 0:
            # vacuity witness: the root can produce a row at all
            qid = "W|%d" % pi
            queries.append(dict(id=qid, script=ctx.script(nopanic + ["(>= %s 1)" % symrel.count_present(root)]), values=[]))
            meta[qid] = dict(what="witness", sql=sql)
    return queries, meta, stats


VPROGS = ["SELECT vals AS v FROM vals", "SELECT vals.vals AS v, t.a AS a FROM vals JOIN t ON vals.vals = t.k", "SELECT vals.vals AS v, u.x AS x FROM vals LEFT JOIN u ON vals.vals = u.id",
          "SELECT count(vals) AS n FROM vals", "SELECT vals.vals AS v, t.a AS a FROM vals CROSS JOIN t"]


def values_programs(tier):
    """[(literal list, programs over the Values relation `vals`)]: every list over {1,2,3} of length <= 3, some longer ones"""
    import itertools
    lists = [list(l) for n in (1, 2, 3) for l in itertools.product((1, 2, 3), repeat=n)] + [[1, 2, 3, 1], [2, 1, 2, 3], [1, 2, 3, 4], [3, 1, 2, 2], [2, 2, 2, 2]]
    if tier == "quick":
        lists = [l for i, l in enumerate(lists) if len(l) != 3 or i % 3 == 0 or l in ([1, 2, 1], [1, 1, 2], [2, 1, 1])]
    return [(l, VPROGS if li % 4 == 0 else VPROGS[:2] + VPROGS[3:4]) for li, l in enumerate(lists)]


def join_key_uniqueness(node):
    """which sides of the ON equalities are columns flagged UNIQUE / PRIMARY KEY in the inputs: none | left | right | both"""
    sides = set()

    def walk(e):
        if not isinstance(e, dict) or e.get("e") != "Function":
            return
        if e["f"] == "Eq" and all(a.get("e") == "Column" for a in e["args"]):
            for a in e["args"]:
                side, colname = a["path"][0], a["path"][-1]
                inp = node["left"] if side == "_LEFT_" else node["right"]
                if any(f["name"] == colname and f["constraint"] in ("Unique", "PrimaryKey") for f in inp["schema"]):
                    sides.add("left" if side == "_LEFT_" else "right")
        for a in e["args"]:
            walk(a)
    walk(node.get("on"))
    return "both" if len(sides) == 2 else (sides.pop() if sides else "none")


def render_node_sql(d, tables_json, node_json, info):
    """SQL (SQLite dialect) of an inner node: the root's rendering defines one CTE per node, select from the node's CTE"""
    sql = (info["rendered"] or {}).get("sqlite")
    if not isinstance(sql, str):
        return None
    if info["is_root"]:
        return sql
    m = re.search(r"^(WITH .*\)) SELECT \* FROM \"[^\"]+\"\s*$", sql, re.S)
    if not m:
        return None
    return '%s SELECT * FROM "%s"' % (m.group(1), node_json["name"])


def main():
    tier = sys.argv[1] if len(sys.argv) > 1 else "quick"
    ck = Check(PID, tier, "translation_validation")
    tq = 30.0 if tier == "quick" else 120.0
    K = 2 if tier == "quick" else 3
    driver.build()
    path, _ = mir.dump_mir()
    fns = mir.parse_mir(path)
    tables_json = progs.catalogue(K)
    programs = progs.programs(tier, seed())
    queries, meta, stats = build_queries(ck, fns, tables_json, programs, K)
    # literal Values relations (their list is program text, repeated literals included): schema and size of the Values node
    # and of what is built on it
    for li, (l, vp) in enumerate(values_programs(tier)):
        q2, m2, s2 = build_queries(ck, fns, tables_json + [dict(name="vals", values=l)], vp, K)
        for q in q2:
            if q["id"].startswith("W|"):
                continue
            nid = "v%d:%s" % (li, q["id"])
            meta[nid] = dict(m2[q["id"]], values_list=l)
            queries.append(dict(q, id=nid))
        for k_ in ("programs", "refused", "panics"):
            stats[k_] += s2[k_]

    # ---- symbolic lemma on Map::size (LIMIT / OFFSET arithmetic), from MIR: for every input bound m >= 0, limit, offset and
    # every input row count n <= m, the number of rows kept min(limit, max(0, n - offset)) is <= the declared upper bound
    lemma_ids = []
    name = [n for n in fns if re.fullmatch(r"relation::<impl at src/relation/mod\.rs:\d+:\d+: \d+:\d+>::size::\{closure#1\}", n) and "Option<usize>" in "".join(fns[n].text[:4])]
    for nm in name[:1]:
        enc = mir.Enc("math")
        def stub_from_interval(tr, c, a, dty):
            return mir.Tup([a[0], a[1]]), lnot("(<= %s %s)" % (a[0].t, a[1].t))
        import hof
        tr = mir.Translator(fns, enc, stubs=[(r"intervals::Intervals::<i64>::from_interval", stub_from_interval)] + hof.STUBS, inline_depth=6)
        env = mir.LazyEnv("cap")
        m = enc.new("i64", "in_max")
        try:
            val, panic = tr.translate_fn(nm, [env, mir.V("i64", m)])
            syms = dict((s.split("!")[0], s) for s, _ in env.syms)
            # which captured variable is which: read from the closure's own debug info
            idx = {}
            for line in fns[nm].text:
                mm = re.search(r"debug (\w+) => \(\*\(_1\.(\d+):", line)
                if mm:
                    idx[mm.group(1)] = int(mm.group(2))
            oi, li = idx["offset"], idx["limit"]
            off_some, off_v = [s for s, _ in env.syms if s.startswith("cap_%d_some" % oi)][0], [s for s, _ in env.syms if s.startswith("cap_%d_v" % oi)][0]
            lim_some, lim_v = [s for s, _ in env.syms if s.startswith("cap_%d_some" % li)][0], [s for s, _ in env.syms if s.startswith("cap_%d_v" % li)][0]
            n = enc.new("i64", "rows_in")
            after_off = "(ite %s (ite (> (- %s %s) 0) (- %s %s) 0) %s)" % (off_some, n, off_v, n, off_v, n)
            kept = "(ite %s (ite (< %s %s) %s %s) %s)" % (lim_some, lim_v, after_off, lim_v, after_off, after_off)
            pre = ["(<= 0 %s)" % m, "(<= %s %d)" % (m, (1 << 63) - 1), "(<= 0 %s)" % n, "(<= %s %s)" % (n, m), "(<= 0 %s)" % off_v, "(<= 0 %s)" % lim_v] + enc.side
            hi = val.items[1].t
            qid = "lemma|Map::size|upper-bound"
            queries.append(dict(id=qid, script="\n".join(enc.decls + ["(assert %s)" % x for x in pre + [lnot(panic), "(> %s %s)" % (kept, hi)]]), values=[m, n, off_some, off_v, lim_some, lim_v]))
            meta[qid] = dict(what="lemma", syms=(m, n, off_some, off_v, lim_some, lim_v))
            lemma_ids.append(qid)
        except (mir.NotTranslatable, IndexError, KeyError) as ex:
            ck.inconclusive("Map::size closure not translatable for the LIMIT/OFFSET lemma: %s" % ex)
    if not name:
        ck.inconclusive("Map::size closure not found in the MIR dump")

    results = smt.solve_all(queries, tq, workers=14, order=["z3new", "cvc5"], progress=1000)
    results = smt.replayable_models(queries, results, tq, workers=14, order=["z3new", "cvc5"])
    ck.count(results)
    d = driver.Driver(60.0)
    n_w = disagreements = 0
    def depth_of(node):
        return 1 + max([depth_of(node[k]) for k in ("input", "left", "right") if k in node] or [0])
    # deepest nodes first, so that a violation is attributed to the node where it originates
    results = sorted(results, key=lambda r: depth_of(meta[r["id"]]["node_json"]) if "node_json" in meta[r["id"]] else 0)
    confirmed_nodes = {}
    def descendant_confirmed(info):
        names = {n["name"] for n in symrel.inner_nodes(info["node_json"])} - {info["node"]}
        return any((info["sql"], n, info["what"]) in confirmed_nodes for n in names)
    for r in results:
        info = meta[r["id"]]
        if info["what"] == "witness":
            n_w += r["status"] == "sat"
            continue
        if r["status"] != "sat":
            continue
        disagreements += 1
        if info["what"] == "lemma":
            m, n, os_, ov, ls_, lv = info["syms"]
            mv = r["model"]
            size, rows = int(mv[m]), int(mv[n])
            off = int(mv[ov]) if mv[os_] is True else None
            lim = int(mv[lv]) if mv[ls_] is True else None
            sql = "SELECT a FROM t" + (" LIMIT %d" % lim if lim is not None else "") + (" OFFSET %d" % off if off is not None else "")
            tj = [dict(name="t", size=[0, size], fields=[dict(name="a", dt=driver.t_int((0, 10)))])]
            a = d.call(dict(op="relation", tables=tj, sql=sql))
            kept = max(0, rows - (off or 0))
            kept = min(kept, lim) if lim is not None else kept
            hi = max(int(h) for _, h in a["ok"]["size"]) if "ok" in a else None
            if hi is not None and kept > hi:
                ck.violation("size=Map/limit-offset-upper-bound", "`%s` on a table of %d rows (declared size [0,%d]) returns %d rows, the declared size is %s" % (sql, rows, size, kept, a["ok"]["size"]), dict(sql=sql, rows=rows, size=size))
            else:
                ck.inconclusive("Map::size lemma counterexample did not reproduce: %s rows=%d declared=%s" % (sql, rows, a.get("ok", {}).get("size")))
            continue
        # ---- replay on SQLite
        dbm = symrel.model_db(info["ctx_tables"], r["model"])
        node = info["node_json"]
        sql = render_node_sql(d, None, node, info)
        shown_db = {".".join(p): rows for p, rows in dbm.items()}
        if sql is None:
            ck.inconclusive("cannot render node %s of `%s` for replay" % (info["node"], info["sql"]))
            continue
        try:
            con = sqlrun.connect()
            sqlrun.load(con, {p: tj for p, (tj, _) in info["ctx_tables"].items()}, dbm)
            import c01
            names, rows = sqlrun.run(con, c01.sqlite_fix(sql))
        except Exception as ex:
            ck.inconclusive("SQLite replay failed for `%s` node %s: %s" % (info["sql"], info["node"], ex))
            continue
        if info["what"] == "size":
            ok = any(int(lo) <= len(rows) <= int(hi) for lo, hi in node["size"])
            if not ok and descendant_confirmed(info):
                confirmed_nodes[(info["sql"], info["node"], "size")] = True
                ck.note("size violation at %s of `%s` is inherited from an input node (reported there)" % (info["node"], info["sql"]))
            elif not ok:
                confirmed_nodes[(info["sql"], info["node"], "size")] = True
                jk = node.get("kind", "")
                key = "size=%s%s" % (node["k"], ("/" + jk) if jk else "")
                if node["k"] == "Join":
                    key += "/key-unique-on-" + join_key_uniqueness(node)
                ck.violation(key, "`%s` node %s (%s): SQLite returns %d rows on %s, declared size %s" % (info["sql"], info["node"], node["k"], len(rows), shown_db, node["size"]),
                             dict(sql=info["sql"], node=info["node"], db=shown_db, rows=len(rows), declared=node["size"], rendered=sql))
            else:
                ck.inconclusive("size counterexample did not reproduce for `%s` node %s: %d rows, declared %s, db %s" % (info["sql"], info["node"], len(rows), node["size"], shown_db))
        else:
            f = [x for x in node["schema"] if x["name"] == info["col"]][0]
            idx = names.index(info["col"]) if info["col"] in names else None
            bad = [row[idx] for row in rows if idx is not None and not sqlrun.in_type(f["dt"], row[idx])]
            if bad and descendant_confirmed(info):
                confirmed_nodes[(info["sql"], info["node"], "schema")] = True
                ck.note("schema violation at %s.%s of `%s` is inherited from an input node (reported there)" % (info["node"], info["col"], info["sql"]))
            elif bad:
                confirmed_nodes[(info["sql"], info["node"], "schema")] = True
                role = "null-in-non-optional" if bad[0] is None else "value-outside-type"
                if node["k"] == "Reduce" and bad[0] is None and not node.get("group_by"):
                    role += "/ungrouped-aggregate-of-empty-input"
                jk = node.get("kind", "")
                key = "schema=%s%s/%s" % (node["k"], ("/" + jk) if jk else "", role)
                ck.violation(key, "`%s` node %s column %s: SQLite produces %r on %s, declared type %s" % (info["sql"], info["node"], info["col"], bad[0], shown_db, f["dt_s"]),
                             dict(sql=info["sql"], node=info["node"], column=info["col"], db=shown_db, value=bad[0], declared=f["dt"], rendered=sql))
            else:
                ck.inconclusive("schema counterexample did not reproduce for `%s` node %s column %s (declared %s): rows %s, db %s" % (info["sql"], info["node"], info["col"], f["dt_s"], rows[:4], shown_db))
    d.close()
    if n_w == 0:
        ck.inconclusive("no witness query is satisfiable: vacuous run")
    ck.samples = [dict(sql=s) for s in programs[:8]]
    cov = dict(
        programs=stats["programs"], disagreements_checked=disagreements,
        refused_by_compiler=stats["refused"], skipped_unsupported=stats["unsupported"], compile_panics=stats["panics"],
        solver_queries_built=len(queries), witnesses_satisfiable=n_w,
        bounds=dict(rows_per_table=K, tables=2, nodes="root and every inner node of each relation", outside=["databases with more than %d rows per table" % K, "float rounding (reals)", "text ordering, dates",
                                                                                                          "LIMIT without ORDER BY: slot order is assumed (the checked properties are order independent)"]),
        evaluations=len(queries), distinct_nontrivial=len(set(q["script"] for q in queries)),
    )
    return ck.finish(cov, assumptions=["relational operator semantics of lib/symrel.py (SQL bag semantics); every reported violation is reproduced by SQLite on the SQL rendered by the library",
                                       "scalar functions: MIR-translated kernels in Int/Real mode (rounding abstracted)"])


if __name__ == "__main__":
    sys.exit(main())
