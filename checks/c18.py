#!/usr/bin/env python3-vt
"""C18 - totality of range / size / interval arithmetic: errors, never panics (kernel level).

(a) every numeric kernel closure of data_type/function.rs, translated from the MIR of the current tree:
    the panic condition (division by zero, overflow asserts, clamp(min>max), unwrap) is unsatisfiable, and no finite
    input yields a NaN (a NaN corner reaches `assert!(min <= max)` when the image interval is built) or +-inf (libm calls
    are uninterpreted but constrained by their IEEE boundary facts: log(0) = -inf, log(x > 0) finite, exp >= 0, |sin|,|cos| <= 1);
(b) the size arithmetic of Map / Reduce / Join / Set, translated from MIR with the inputs' sizes havocked under the
    invariant 0 <= max (inductive step over relation trees): no overflow assert, no `from_interval(min > max)`;
    the invariant is re-established;
(c) `Intervals<i64>::values_len`, translated from MIR: whenever it lets `into_values` enumerate (len < capacity) the
    hull really has fewer than `capacity` points (otherwise into_values enumerates up to 2^63 values: non-termination).
(d) pipeline sweep - CONCRETE ENUMERATION, not a solver claim: the real compiler and the real DP rewriter are run on the programs of
    the other checks' catalogues plus zero-bound / overflow shapes; every panic is reported (keyed by message and site).
Counterexamples are replayed through the real code (Function::value / super_image, SQL -> Relation, into_data_type).
"""
import os, sys, re, json, time
sys.path.insert(0, os.path.join(os.path.dirname(os.path.abspath(__file__)), "..", "lib"))
import mir, smt, kern, driver
from common import Check
from smt import land, lor, lnot, fp_lit, bv64

PID = "C18"
I64_MIN, I64_MAX = -(1 << 63), (1 << 63) - 1
SORT = {"bool": "Bool", "i64": "(_ BitVec 64)", "f64": "(_ FloatingPoint 11 53)", "usize": "(_ BitVec 64)", "i32": "(_ BitVec 32)"}


def camel(s):
    return "".join(p.capitalize() for p in s.split("_"))


def numeric_kernels(fns):
    out = []
    for name, f in fns.items():
        if "{closure" not in name or not re.search(r"closure@src/data_type/function\.rs", f.header):
            continue
        sig = [t for _, t in f.args[1:]]
        if sig and all(t.lstrip("&") in ("i64", "f64", "bool") for t in sig) and f.ret in ("i64", "f64", "bool"):
            out.append(name)
    return out


def function_of_kernel(name, fn, known_functions):
    m = re.match(r"(?:data_type::function::)?(\w+)::\{closure#(\d+)\}$", name)
    if not m:
        return None
    base, idx = m.group(1), int(m.group(2))
    if base == "cast":
        sig = ([t for _, t in fn.args[1:]], fn.ret)
        return {(("i64",), "f64"): "CastAsFloat", (("f64",), "i64"): "CastAsInteger"}.get((tuple(sig[0]), sig[1]))
    c = camel(base)
    return c if c in known_functions else None


def decl(n, ty):
    return "(declare-const %s %s)" % (n, SORT[ty])


def finite(n):
    return "(not (or (fp.isNaN %s) (fp.isInfinite %s)))" % (n, n)


# ---- stubs for the size / interval code ------------------------------------------------------------


def stub_from_interval(tr, c, a, dty):
    e = tr.enc
    return mir.Tup([a[0], a[1]]), lnot(e.icmp("Le", "i64", a[0].t, a[1].t))


def stub_from_min(tr, c, a, dty):
    e = tr.enc
    return mir.Tup([a[0], mir.V("i64", e.int_const("i64", I64_MAX))]), "false"


class SizeEnv:
    """havoc model of `relation.size()` / `.max()`: an Option<&i64> whose payload obeys the invariant 0 <= max"""

    def __init__(self):
        self.syms = []

    def stub_size(self, tr, c, a, dty):
        return mir.Opaque("size-of-input-%d" % len(self.syms)), "false"

    def stub_max(self, tr, c, a, dty):
        e = tr.enc
        i = len(self.syms)
        d = e.new("bool", "in%d_bounded" % i)
        v = e.new("i64", "in%d_max" % i)
        self.syms.append((d, v))
        return mir.En("Option", "(ite %s 1 0)" % d, {0: [], 1: [mir.V("i64", v)]}), "false"

    def stub_schema(self, tr, c, a, dty):
        return mir.Opaque("schema"), "false"

    def stub_unique(self, tr, c, a, dty):
        e = tr.enc
        return mir.Tup([mir.V("bool", e.new("bool", "left_unique")), mir.V("bool", e.new("bool", "right_unique"))]), "false"


def main():
    tier = sys.argv[1] if len(sys.argv) > 1 else "quick"
    ck = Check(PID, tier, "model_checking")
    tq = 30.0 if tier == "quick" else 180.0
    bsecs = driver.build()
    path, msecs = mir.dump_mir()
    fns = mir.parse_mir(path)
    d = driver.Driver(20.0)
    fl = d.call(dict(op="fn_list"))
    known_functions = {f["f"] for f in fl.get("ok", [])}
    queries, meta = [], {}

    def add(qid, decls, asserts, values, info):
        queries.append(dict(id=qid, script="\n".join(decls + ["(assert %s)" % a for a in asserts]), values=values))
        meta[qid] = info

    # ------------------------------------------------------------------ (a) function kernels
    knames = numeric_kernels(fns)
    K, nt = {}, {}
    for name in knames:
        try:
            K[name] = kern.Kernel(fns, name, "bv")
        except mir.NotTranslatable as ex:
            nt[name] = str(ex)
    helpers = []
    for name, k in sorted(K.items()):
        argn = ["a%d" % i for i in range(len(k.arg_tys))]
        inst = k.inst(argn)
        decls = [decl(n, t) for n, t in zip(argn, k.arg_tys)] + inst["decls"]
        fin = [finite(n) for n, t in zip(argn, k.arg_tys) if t == "f64"]
        fname = function_of_kernel(name, fns[name], known_functions)
        info = dict(part="a", kernel=name, function=fname, tys=k.arg_tys, argn=argn)
        if fname is None:
            helpers.append(name)  # internal helper closure (captures its environment); reached only through its parent
            continue
        if inst["panic"] != "false":
            regions = []
            if k.arg_tys == ["i64", "i64"]:
                regions = [("divisor=0", "(= a1 %s)" % bv64(0)), ("MIN/-1", "(and (= a0 %s) (= a1 %s))" % (bv64(I64_MIN), bv64(-1)))]
            for rk, rp in regions:
                add("a/panic/%s/%s" % (name, rk), decls, [inst["panic"], rp] + fin, argn, dict(info, kind="panic", region=rk))
            add("a/panic/%s/other" % name, decls, [inst["panic"]] + [lnot(rp) for _, rp in regions] + fin, argn, dict(info, kind="panic", region="other"))
        else:
            ck.sample(dict(kernel=name, panic_condition="false (no panicking operation in the body)"))
        uses_uf = any(re.search(r"::(ln|exp|sin|cos|log|powf|powi)$", c) for c in k.callees)
        if k.ret_ty == "f64" and not uses_uf:
            regions = []
            if k.arg_tys == ["f64", "f64"]:
                regions = [("0/0", "(and (fp.isZero a0) (fp.isZero a1))")]
            for rk, rp in regions:
                add("a/nan/%s/%s" % (name, rk), decls, ["(fp.isNaN %s)" % inst["val"].t, rp] + fin, argn, dict(info, kind="nan", region=rk))
            add("a/nan/%s/other" % name, decls, ["(fp.isNaN %s)" % inst["val"].t] + [lnot(rp) for _, rp in regions] + fin, argn, dict(info, kind="nan", region="other"))
        # no finite argument yields +-inf: the kernels clamp to [f64::MIN, f64::MAX] so that images stay inside the float type
        # (an infinite image bound makes later arithmetic refuse its domain and fall back to panicking paths). libm calls
        # are uninterpreted; what the solver is told about them are IEEE / libm facts at the boundary of their domain.
        if k.ret_ty == "f64" and fname is not None:
            ax = []
            val_t = inst["val"].t
            for m_ in set(re.findall(r"\((uf_\w+) ([^()\s]+|\([^()]*\))(?: ([^()\s]+|\([^()]*\)))?\)", val_t)):
                uf, a_, b_ = m_
                app = "(%s %s%s)" % (uf, a_, (" " + b_) if b_ else "")
                fin_a = finite(a_)
                if uf in ("uf_ln", "uf_log", "uf_log10", "uf_log2"):
                    ax += ["(=> (fp.isZero %s) (and (fp.isInfinite %s) (fp.isNegative %s)))" % (a_, app, app),
                           "(=> (and %s (fp.gt %s %s)) %s)" % (fin_a, a_, fp_lit(0.0), finite(app)),
                           "(=> (fp.lt %s %s) (fp.isNaN %s))" % (a_, fp_lit(0.0), app)]
                elif uf == "uf_exp":
                    ax += ["(=> %s (and (not (fp.isNaN %s)) (fp.geq %s %s)))" % (fin_a, app, app, fp_lit(0.0))]
                elif uf in ("uf_sin", "uf_cos"):
                    ax += ["(=> %s (and (fp.geq %s %s) (fp.leq %s %s)))" % (fin_a, app, fp_lit(-1.0), app, fp_lit(1.0))]
            add("a/inf/%s" % name, decls, ["(fp.isInfinite %s)" % val_t] + fin + ax, argn, dict(info, kind="inf", region="finite-argument"))
    ck.note("(a) %d numeric kernels in function.rs, %d translated, %d not translatable, %d internal helper closures skipped" % (len(knames), len(K), len(nt), len(helpers)))

    # ------------------------------------------------------------------ (b) size arithmetic
    size_fns = {}
    for name in fns:
        m = re.match(r"relation::<impl at src/relation/mod\.rs:(\d+):\d+: \d+:\d+>::size(::\{closure#1\})?$", name)
        if m:
            line = open(__import__("paths").REPO + "/src/relation/mod.rs").read().split("\n")[int(m.group(1)) - 1]
            mm = re.match(r"impl (Map|Reduce|Join|Set) \{", line)
            if mm:
                has_closure = (name + "::{closure#1}") in fns
                if m.group(2) or not has_closure:
                    size_fns[mm.group(1)] = name
    for kind in ("Map", "Reduce", "Join", "Set"):
        if kind not in size_fns:
            ck.inconclusive("size function of %s not found in the MIR dump" % kind)
    for kind, name in sorted(size_fns.items()):
        fn = fns[name]
        variants = [None]
        if kind == "Set":
            variants = [0, 1, 2]  # SetOperator discriminant: Union, Except, Intersect (checked below on the real enum order)
        for var in variants:
            enc = mir.Enc("bv")
            env = SizeEnv()
            stubs = [(r"intervals::Intervals::<i64>::from_interval", stub_from_interval),
                     (r"intervals::Intervals::<i64>::from_min", stub_from_min),
                     (r"<relation::Relation as relation::Variant>::size", env.stub_size),
                     (r"intervals::Intervals::<i64>::max", env.stub_max),
                     (r"<relation::Relation as relation::Variant>::schema", env.stub_schema),
                     (r"relation::JoinOperator::has_unique_constraint", env.stub_unique)]
            tr = mir.Translator(fns, enc, stubs=stubs)
            args = []
            lazy = None
            syms = []
            try:
                for (n, t) in fn.args:
                    t0 = t.lstrip("&").strip()
                    if "{closure@" in t0:
                        lazy = mir.LazyEnv("cap")
                        args.append(lazy)
                    elif t0 == "i64":
                        v = enc.new("i64", "in0_max")
                        env.syms.append((None, v))
                        args.append(mir.V("i64", v))
                    elif t0 == "relation::SetOperator":
                        args.append(mir.En("SetOperator", smt.int_lit(var), {0: [], 1: [], 2: []}))
                    elif t0.startswith("std::option::Option<usize>"):
                        args.append(tr.sym_of_type(t0, n.strip("_") + "_opt", syms))
                    else:
                        args.append(mir.Opaque(t0))
                val, panic = tr.translate_fn(name, args)
            except mir.NotTranslatable as ex:
                ck.inconclusive("size function %s (%s) no longer translatable: %s" % (kind, name, ex))
                continue
            if lazy is not None:
                syms += lazy.syms
            inv = []
            for dsym, v in env.syms:
                inv.append("(bvsle %s %s)" % (bv64(0), v))
            qid = "b/%s%s" % (kind, "" if var is None else "/op%d" % var)
            values = [v for _, v in env.syms] + [dd for dd, _ in env.syms if dd] + [s for s, _ in syms]
            info = dict(part="b", kind=kind, fn=name, var=var, env=[(dd, v) for dd, v in env.syms], opts=syms)
            regions = []
            if kind == "Map":
                names = [sname for sname, _ in syms]
                def optp(prefix):
                    some = [x for x in names if x.startswith(prefix) and "_some" in x]
                    val = [x for x in names if x.startswith(prefix) and "_v" in x]
                    return (some[0], val[0]) if some and val else None
                o, l = optp("cap_0"), optp("cap_1")
                if o:
                    regions.append(("offset>i64::MAX", "(and %s (bvslt %s %s))" % (o[0], o[1], bv64(0))))
                if l:
                    regions.append(("limit>i64::MAX", "(and %s (bvslt %s %s)%s)" % (l[0], l[1], bv64(0), (" (not %s)" % o[0]) if o else "")))
            if kind == "Set" and len(env.syms) == 2:
                a_, b_ = env.syms[0], env.syms[1]
                mx = lambda dv: "(ite %s ((_ sign_extend 1) %s) ((_ sign_extend 1) %s))" % (dv[0], dv[1], bv64(I64_MAX))
                regions.append(("sum-overflow", "(bvsgt (bvadd %s %s) ((_ sign_extend 1) %s))" % (mx(a_), mx(b_), bv64(I64_MAX))))
            for rk, rp in regions:
                add(qid + "/no-panic/" + rk, enc.decls, inv + [panic, rp], values, dict(info, what="panic", region=rk))
            add(qid + "/no-panic/other", enc.decls, inv + [panic] + [lnot(rp) for _, rp in regions], values, dict(info, what="panic", region="other"))
            # invariant re-established: result = [lo, hi] with 0 <= lo <= hi   (from_min gives hi = MAX)
            if isinstance(val, mir.Tup) and len(val.items) == 2:
                lo, hi = val.items
                add(qid + "/invariant", enc.decls, inv + [lnot(panic), lnot("(and (bvsle %s %s) (bvsle %s %s))" % (bv64(0), lo.t, lo.t, hi.t))], values, dict(info, what="invariant", region="other"))
            add("W/" + qid, enc.decls, inv + [lnot(panic)], values, dict(info, what="witness", region=""))
            ck.sample(dict(size_function=name, kind=kind, stubs_used=sorted(set(tr.stubs_used))))

    # ------------------------------------------------------------------ (c) values_len
    vl = [n for n in fns if re.match(r"intervals::<impl at src/data_type/intervals\.rs:\d+:\d+: \d+:\d+>::values_len$", n) and "Intervals<i64>" in fns[n].header]
    if not vl:
        ck.inconclusive("Intervals<i64>::values_len not found in the MIR dump")
    for name in vl:
        enc = mir.Enc("bv")
        state = {}

        def stub_minmax(tr, c, a, dty, state=state, enc=enc):
            which = "min" if c.endswith("::min") else "max"
            if "some" not in state:
                state["some"] = enc.new("bool", "nonempty")
            if which not in state:
                state[which] = enc.new("i64", which)
            return mir.En("Option", "(ite %s 1 0)" % state["some"], {0: [], 1: [mir.V("i64", state[which])]}), "false"

        def stub_branch(tr, c, a, dty):
            v = a[0]
            some = v.variants.get(1)
            return mir.En("ControlFlow", "(ite (= %s 1) 0 1)" % v.disc, {0: some or [], 1: []}), "false"

        def stub_residual(tr, c, a, dty):
            return mir.En("Option", "0", {0: []}), "false"

        def stub_clamp(tr, c, a, dty, enc=enc):
            x, lo, hi = a
            v = "(ite (bvslt %s %s) %s (ite (bvsgt %s %s) %s %s))" % (x.t, lo.t, lo.t, x.t, hi.t, hi.t, x.t)
            return mir.V("i64", v), "(bvsgt %s %s)" % (lo.t, hi.t)

        mir.ENUM_VARIANTS.setdefault("ControlFlow", {"Continue": 0, "Break": 1})
        stubs = [(r"intervals::Intervals::<i64>::(min|max)", stub_minmax),
                 (r"<std::option::Option<&i64> as Try>::branch", stub_branch),
                 (r"<std::option::Option<usize> as FromResidual<std::option::Option<Infallible>>>::from_residual", stub_residual),
                 (r"<i64 as Ord>::clamp", stub_clamp)]
        tr = mir.Translator(fns, enc, stubs=stubs)
        cap = enc.new("usize", "capacity")
        try:
            val, panic = tr.translate_fn(name, [mir.Tup([mir.V("usize", cap), mir.Opaque("vec")])])
        except mir.NotTranslatable as ex:
            ck.inconclusive("values_len no longer translatable: %s" % ex)
            continue
        some = "(= %s 1)" % val.disc
        ln = val.variants[1][0].t
        mn, mx = state["min"], state["max"]
        pre = [state["some"], "(bvsle %s %s)" % (mn, mx), "(= %s %s)" % (cap, bv64(128))]
        width_ge_cap = "(bvsge (bvsub ((_ sign_extend 1) %s) ((_ sign_extend 1) %s)) ((_ zero_extend 1) %s))" % (mx, mn, cap)
        info = dict(part="c", fn=name, mn=mn, mx=mx)
        add("c/values_len/no-panic", enc.decls, pre + [panic], [mn, mx], dict(info, what="panic"))
        same_side = "(or (bvsgt %s %s) (bvslt %s %s))" % (mn, bv64(128), mx, bv64(-128))
        for rk, rp in (("both-ends-same-side-of-capacity", same_side), ("one-end-inside-capacity", lnot(same_side))):
            add("c/values_len/enumerates-only-small-hulls/" + rk, enc.decls, pre + [lnot(panic), some, "(bvult %s %s)" % (ln, cap), width_ge_cap, rp], [mn, mx], dict(info, what="enumerate"))
        add("W/c/values_len", enc.decls, pre + [lnot(panic), some, "(bvult %s %s)" % (ln, cap)], [mn, mx], dict(info, what="witness"))
        ck.sample(dict(function=name, stubs_used=sorted(set(tr.stubs_used))))

    # ------------------------------------------------------------------ (d) pipeline sweep (enumeration, stated as such)
    # The solver parts above are kernel level. Whether a *call site* feeds a kernel a value outside its safe domain is a
    # property of the pipeline, which cannot be executed symbolically; what can be done is to run the real compiler and the real
    # DP rewriter on the catalogues of the other checks and to report every panic. This part is concrete enumeration.
    import progs, pucat
    sweep = []
    cat = progs.catalogue(2)
    rel_programs = list(progs.FIXED) + [
        "SELECT a, sum(g) * 2 + a AS v FROM t GROUP BY a", "SELECT c, sum(a) / count(a) AS r FROM t GROUP BY c", "SELECT a FROM t UNION SELECT a FROM u UNION SELECT g FROM t",
        "SELECT a FROM (SELECT a FROM t) AS s0 UNION SELECT a FROM u", "SELECT a / g AS q FROM t", "SELECT a % g AS q FROM t", "SELECT log(a) / 2 AS q FROM t", "SELECT ln(b) AS q FROM t",
        "SELECT round(b, 400) AS q FROM t", "SELECT trunc(b, -400) AS q FROM t", "SELECT sqrt(g) AS q FROM t", "SELECT a FROM t LIMIT 0", "SELECT 1", "SELECT a FROM t WHERE a IN (1, 2) ORDER BY a LIMIT 1 OFFSET 5",
        "SELECT exp(a) / exp(g) AS q FROM t", "SELECT abs(g) / a AS q FROM t WHERE a > 0", "SELECT sum(a) AS s FROM t WHERE a = 0 GROUP BY c",
    ]
    for sql in rel_programs:
        sweep.append(("relation", sql, dict(op="relation", tables=cat, sql=sql)))
    dp_programs = ["SELECT sum(amount) AS s FROM orders", "SELECT kind, avg(amount) AS m FROM orders GROUP BY kind", "SELECT sum(amount) AS s FROM orders WHERE amount = 0",
                   "SELECT sum(amount * 0) AS s FROM orders", "SELECT count(qty) AS n FROM orders WHERE qty IN (0)", "SELECT avg(amount) AS m FROM orders WHERE amount >= 0 AND amount <= 0",
                   "SELECT sum(frac) AS f, variance(frac) AS v FROM orders", "SELECT qty, count(*) AS n FROM orders GROUP BY qty", "SELECT stddev(bal) AS sd FROM orders WHERE bal = 0",
                   "SELECT sum(o.amount) AS s FROM orders AS o JOIN users AS u ON o.user_id = u.id WHERE u.age = 0", "SELECT sum(age) AS s FROM users WHERE age < 0"]
    # shape family: select lists x GROUP BY clauses over the protected table (bare columns next to a GROUP BY become FIRST
    # aggregates in the relation; DISTINCT, HAVING, ORDER BY / LIMIT, sub-queries, joins): whatever the rule setter accepts, the
    # DP compiler must compile or refuse with an error
    shape_programs = []
    for sel in ("kind", "kind, qty", "kind, amount", "kind, sum(amount) AS s", "kind, qty, count(*) AS n", "kind, amount, sum(bal) AS s", "kind, max(qty) AS m", "kind, min(amount) AS m", "count(DISTINCT kind) AS n, sum(amount) AS s"):
        for gb in ("", " GROUP BY kind", " GROUP BY kind, qty"):
            shape_programs.append("SELECT %s FROM orders%s" % (sel, gb))
    shape_programs += ["SELECT DISTINCT kind FROM orders", "SELECT DISTINCT kind, qty FROM orders", "SELECT kind, sum(amount) AS s FROM orders GROUP BY kind HAVING sum(amount) > 0",
                       "SELECT kind, sum(amount) AS s FROM orders GROUP BY kind ORDER BY kind LIMIT 1", "SELECT sum(s) AS ss FROM (SELECT kind, sum(amount) AS s FROM orders GROUP BY kind) AS q",
                       "WITH q AS (SELECT user_id, amount FROM orders WHERE amount > 0) SELECT count(*) AS n, avg(amount) AS m FROM q", "SELECT u.city AS c, o.kind AS k, sum(o.amount) AS s FROM orders AS o JOIN users AS u ON o.user_id = u.id GROUP BY u.city, o.kind",
                       "SELECT u.city AS c, o.kind AS k, sum(o.amount) AS s FROM orders AS o JOIN users AS u ON o.user_id = u.id GROUP BY u.city", "SELECT kind + 1 AS k, sum(amount) AS s FROM orders GROUP BY kind + 1",
                       "SELECT CASE WHEN amount > 0 THEN 1 ELSE 0 END AS pos, count(*) AS n FROM orders GROUP BY CASE WHEN amount > 0 THEN 1 ELSE 0 END", "SELECT p.k AS k, sum(o.amount) AS s FROM orders AS o JOIN pub AS p ON o.kind = p.k GROUP BY p.k"]
    ptabs, pus = pucat.tables(2), pucat.pu_defs()
    for sql in shape_programs:
        sweep.append(("rewrite_dp", sql, dict(op="rewrite", mode="dp", tables=ptabs, privacy_unit=pus["chain"], dp=dict(epsilon=1.0, delta=1e-3), synthetic=False, sql=sql)))
        sweep.append(("rewrite_dp", sql, dict(op="rewrite", mode="dp", tables=ptabs, privacy_unit=pus["own-column"], dp=dict(epsilon=1.0, delta=1e-3), synthetic=True, sql=sql)))
    for sql in dp_programs:
        for prm in (dict(epsilon=1.0, delta=1e-3), dict(epsilon=1.0, delta=1e-3, privacy_unit_max_multiplicity=0.0, privacy_unit_max_multiplicity_share=0.0)):
            sweep.append(("rewrite_dp", sql, dict(op="rewrite", mode="dp", tables=ptabs, privacy_unit=pus["chain"], dp=prm, synthetic=False, sql=sql)))
    sw_ans = driver.parallel_batch([j for _, _, j in sweep], workers=12, timeout=120.0)
    n_sweep_panics = 0
    for (kind, sql, job), ans in zip(sweep, sw_ans):
        if "panic" in ans:
            n_sweep_panics += 1
            msg = ans["panic"]
            site = re.search(r" at (?:/[^ ]*?/)?(src/[^ :]+|library/[^ :]+):(\d+)", msg)
            cls = re.sub(r"\(\\?\"[^\"]*\\?\"\)", "", re.sub(r" at /.*$", "", msg)).replace("called `Result::unwrap()` on an `Err` value: ", "unwrap-Err:").replace("called `Option::unwrap()` on a `None` value", "unwrap-None").strip()
            cls = re.sub(r"[^A-Za-z0-9:<>=_-]+", "-", cls)[:60].strip("-")
            key = "pipeline=panic/%s/%s@%s" % (kind, cls, (site.group(1).replace("src/", "") if site else "?"))
            ck.violation(key, "%s panics on `%s`%s: %s" % ("sql -> Relation" if kind == "relation" else "rewrite_with_differential_privacy", sql, "" if kind == "relation" else " (%s)" % json.dumps(job["dp"]), msg), dict(sql=sql, kind=kind, panic=msg))
        elif "timeout" in ans or "crash" in ans:
            ck.inconclusive("pipeline sweep: the driver failed on `%s`: %s" % (sql, json.dumps(ans)[:120]))

    # ------------------------------------------------------------------ solve + replay
    results = smt.solve_all(queries, tq, workers=14)
    ck.count(results)
    replayed = confirmed = benign = 0
    for r in results:
        info = meta[r["id"]]
        if r["id"].startswith("W/"):
            if r["status"] != "sat":
                ck.inconclusive("vacuity witness %s is %s" % (r["id"], r["status"]))
            continue
        if r["status"] != "sat":
            continue
        replayed += 1
        if info["part"] == "a":
            args = [kern.py_of_model(t, r["model"][n]) for n, t in zip(info["argn"], info["tys"])]
            shown = [a.to_float() if isinstance(a, smt.FP) else a for a in args]
            f = info["function"]
            if f is None:
                ck.inconclusive("counterexample for kernel %s cannot be replayed (no public function found for it): %s" % (info["kernel"], shown))
                continue
            vals = [kern.value_json(t, a) for t, a in zip(info["tys"], args)]
            types = []
            for t, a in zip(info["tys"], args):
                types.append(driver.t_int((a, a)) if t == "i64" else driver.t_float((a.to_float(), a.to_float())) if t == "f64" else driver.t_bool((a, a)))
            rv = d.call(dict(op="fn_value", f=f, args=vals))
            ri = d.call(dict(op="fn_super_image", f=f, args=types))
            where = [w for w, x in (("value", rv), ("super_image", ri)) if "panic" in x]
            region = info["region"]
            key = "kernel=%s/%s/%s" % (f, info["kind"], region)
            if info["kind"] == "inf":
                js = json.dumps([rv.get("ok"), ri.get("ok")])
                is_inf = ("0x7ff0000000000000" in js) or ("0xfff0000000000000" in js) or ("inf" in (rv.get("s") or "") + (ri.get("s") or ""))
                if where:
                    confirmed += 1
                    ck.violation("kernel=%s/panic/non-finite-intermediate" % f, "%s(%s) panics in %s: %s (an intermediate of the kernel overflows to +-inf)" % (f, ", ".join(map(str, shown)), "+".join(where), (rv.get("panic") or ri.get("panic"))),
                                 dict(query=r["id"], args=shown, value=rv, super_image=ri))
                elif is_inf:
                    confirmed += 1
                    ck.violation(key, "%s(%s) is infinite: value %s, image of the singleton type %s - outside the float type [f64::MIN, f64::MAX] the kernels are meant to stay in" % (
                        f, ", ".join(map(str, shown)), rv.get("s") or json.dumps(rv)[:80], ri.get("s") or json.dumps(ri)[:80]), dict(query=r["id"], args=shown, value=rv, super_image=ri))
                else:
                    benign += 1
                    ck.note("kernel %s: the solver's infinite result at %s does not show through the public API (value=%s image=%s)" % (info["kernel"], shown, json.dumps(rv)[:100], json.dumps(ri)[:100]))
                continue
            if where:
                confirmed += 1
                ck.violation(key, "%s(%s) panics in %s: %s" % (f, ", ".join(map(str, shown)), "+".join(where), (rv.get("panic") or ri.get("panic"))),
                             dict(query=r["id"], args=shown, value=rv, super_image=ri))
            else:
                benign += 1
                ck.note("kernel %s: solver input %s does not panic through the public API (outside the function's domain or handled): value=%s image=%s" % (
                    info["kernel"], shown, json.dumps(rv)[:100], json.dumps(ri)[:100]))
        elif info["part"] == "b":
            mv = {k: v for k, v in r["model"].items()}
            def geti(name):
                v = mv.get(name)
                return kern.py_of_model("i64", v) if v is not None else None
            sizes = []
            for dsym, v in info["env"]:
                bounded = True if dsym is None else bool(mv.get(dsym))
                sizes.append(geti(v) if bounded else None)
            opts = {}
            for s, ty in info["opts"]:
                opts[s] = bool(mv[s]) if ty == "bool" else kern.py_of_model("u64", mv[s])
            tables = []
            for i, sz in enumerate(sizes[:2] if sizes else [None]):
                tables.append(dict(name="t%d" % i, size=(None if sz is None else [0, sz]), fields=[dict(name="a", dt=driver.t_int((0, 10)))]))
            if len(tables) == 1:
                tables.append(dict(name="t1", size=5, fields=[dict(name="a", dt=driver.t_int((0, 10)))]))
            kind = info["kind"]
            if kind == "Map":
                lim = off = None
                for s, ty in info["opts"]:
                    pass
                names = [s for s, _ in info["opts"]]
                # opts come in (some, value) pairs in capture order: offset (cap_0), limit (cap_1)
                def opt(prefix):
                    some = [s for s in names if s.startswith(prefix) and "_some" in s]
                    val = [s for s in names if s.startswith(prefix) and "_v" in s]
                    if some and bool(mv[some[0]]):
                        return kern.py_of_model("u64", mv[val[0]])
                    return None
                off, lim = opt("cap_0"), opt("cap_1")
                sql = "SELECT a FROM t0" + (" LIMIT %d" % lim if lim is not None else "") + (" OFFSET %d" % off if off is not None else "")
                region = info["region"]
            elif kind == "Reduce":
                sql, region = "SELECT count(a) FROM t0 GROUP BY a", info["region"]
            elif kind == "Join":
                sql, region = "SELECT * FROM t0 JOIN t1 ON t0.a = t1.a", info["region"]
            else:
                op = ["UNION", "EXCEPT", "INTERSECT"][info["var"]]
                sql = "SELECT a FROM t0 %s SELECT a FROM t1" % op
                region = info["region"]
            ans = d.call(dict(op="relation", tables=tables, sql=sql))
            key = "size=%s/%s/%s" % (kind, info["what"], region)
            if "panic" in ans:
                confirmed += 1
                ck.violation(key, "`%s` with input sizes %s panics: %s" % (sql, sizes, ans["panic"]), dict(query=r["id"], sql=sql, tables=tables, answer=ans))
            elif info["what"] == "invariant" and "ok" in ans:
                sz = ans["ok"]["size"]
                bad = any(int(lo) < 0 or int(lo) > int(hi) for lo, hi in sz)
                if bad:
                    confirmed += 1
                    ck.violation(key, "`%s` declares size %s" % (sql, sz), dict(sql=sql, tables=tables))
                else:
                    ck.inconclusive("size counterexample %s did not reproduce: `%s` sizes %s -> %s" % (r["id"], sql, sizes, json.dumps(ans)[:200]))
            else:
                ck.inconclusive("size counterexample %s did not reproduce: `%s` sizes %s -> %s" % (r["id"], sql, sizes, json.dumps(ans)[:200]))
        elif info["part"] == "c":
            mn = kern.py_of_model("i64", r["model"][info["mn"]])
            mx = kern.py_of_model("i64", r["model"][info["mx"]])
            if info["what"] == "panic":
                ans = d.call(dict(op="inject", **{"from": driver.t_int((mn, mx)), "to": driver.t_float((-1e308, 1e308))}), timeout=10.0)
                if "panic" in json.dumps(ans):
                    confirmed += 1
                    ck.violation("intervals=values_len/panic", "Integer[%d,%d] -> Float panics: %s" % (mn, mx, json.dumps(ans)[:200]), dict(min=mn, max=mx))
                else:
                    ck.inconclusive("values_len panic counterexample did not reproduce for [%d,%d]" % (mn, mx))
                continue
            ans = d.call(dict(op="int_values", dt=driver.t_int((mn, mx)), enumerate_cap=300000), timeout=20.0)
            region = "both-ends-same-side-of-capacity" if (mn > 128 or mx < -128) else "one-end-inside-capacity"
            if ans.get("enumerates") and int(ans.get("hull_width", "0")) >= 128:
                confirmed += 1
                n = ans.get("n_values")
                ck.violation("intervals=values_len/enumerates-large-hull/" + region,
                             "Integer[%d,%d]: values_len=%s < capacity %s, so into_values enumerates the %d points of the hull one by one%s; hulls of up to 2^63 points do not terminate" % (
                                 mn, mx, ans.get("values_len"), ans.get("max_value_len"), mx - mn + 1, (" (%d values built)" % n) if n is not None else ""),
                             dict(min=mn, max=mx, answer=ans))
            else:
                ck.inconclusive("values_len counterexample [%d,%d] did not reproduce: %s" % (mn, mx, json.dumps(ans)[:200]))
    d.close()
    cov = dict(
        states=len(queries), transitions=len(queries), traces_validated_against_impl=replayed,
        functions_encoded=sorted(K) + sorted(size_fns.values()) + vl,
        not_translatable=nt,
        bounds=dict(width="full 64-bit / IEEE double; closure environments and input sizes havocked under the invariant 0 <= size.max",
                    capacity="values_len checked for capacity = 128 (the only value the library uses)",
                    outside=["panics in sqlparser, builders (unwrap on user-level errors, todo!()), string/date kernels, loops: pipeline-level totality",
                             "NaN production by transcendental kernels (ln, exp, pow, sin, cos are uninterpreted)"]),
        counterexamples_replayed=replayed, confirmed=confirmed, benign_outside_domain=benign,
        evaluations=len(queries), distinct_nontrivial=len(set(q["script"] for q in queries)),
    )
    return ck.finish(cov, assumptions=[
        "MIR -> SMT translation and callee table (lib/mir.py)",
        "stubs: Intervals::from_interval(a,b) panics iff a > b (its documented assert); Relation::size().max() is an arbitrary Option<i64> with 0 <= max; has_unique_constraint returns two arbitrary booleans",
        "induction over relation trees: base tables are built with sizes >= 0 (TableBuilder / Table::new with caller-supplied Integer is the caller's responsibility)",
    ])


if __name__ == "__main__":
    sys.exit(main())
