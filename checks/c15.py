#!/usr/bin/env python3-vt
"""C15 - name resolution: exact or unique-suffix match, never an arbitrary candidate.

The lookup logic of hierarchy.rs (get_key_value, its closures, is_suffix_of, From<Found<T>> for Option<T>) is
translated from the MIR of the current tree; the std combinators it calls are modelled in lib/hof.py (closures are
inlined from their own MIR). Paths are sequences of integer codes (equality + order only), so the alphabet is
unbounded; map size and path lengths are bounded and enumerated, contents are symbolic.
  Q1  for every map of N entries (sorted, distinct keys - BTreeMap) and every lookup path:
      translated get_key_value == specification (exact match, else unique suffix-agreeing entry, else nothing)
  Q2  inductive step of the fold closure against the counting invariant (covers maps of any size)
Counterexamples are rebuilt as a real Hierarchy and looked up through the real get_key_value (driver).
A query-level clause (an unqualified column present on both sides of a join is refused or resolved by USING/NATURAL)
is exercised on enumerated negative programs through the real compiler and reported separately.
"""
import os, sys, re, json, itertools
sys.path.insert(0, os.path.join(os.path.dirname(os.path.abspath(__file__)), "..", "lib"))
import mir, smt, driver, hof
from mir import V, Tup, En, Seq, Opaque
from common import Check, seed
from smt import land, lor, lnot, ite

PID = "C15"


def find_fn(fns, pattern):
    r = [n for n in fns if re.fullmatch(pattern, n)]
    return r[0] if r else None


def path_sym(enc, name, n):
    return Seq.of([V("str", enc.new("str", "%s_%d" % (name, j))) for j in range(n)])


def lex_lt(a, b):
    """strict lexicographic order of two plain sequences of Int codes (shorter prefix first)"""
    xs = [v.t for _, v in a.items]
    ys = [v.t for _, v in b.items]
    n = min(len(xs), len(ys))
    alts = []
    eq_prefix = []
    for i in range(n):
        alts.append(land(eq_prefix + ["(< %s %s)" % (xs[i], ys[i])]))
        eq_prefix.append("(= %s %s)" % (xs[i], ys[i]))
    if len(xs) < len(ys):
        alts.append(land(eq_prefix))
    return lor(alts)


def suffix_agree(p, k):
    xs = [v.t for _, v in p.items]
    ys = [v.t for _, v in k.items]
    n = min(len(xs), len(ys))
    return land(["(= %s %s)" % (xs[-1 - j], ys[-1 - j]) for j in range(n)])


def spec_lookup(entries, path):
    """-> (found term, id term) for the documented rule"""
    exact = [hof.seq_eq(k, path) for k, _ in entries]
    agree = [suffix_agree(path, k) for k, _ in entries]
    any_exact = lor(exact)
    n_agree = "(+ 0 %s)" % " ".join("(ite %s 1 0)" % a for a in agree) if agree else "0"
    idt = "(- 1)"
    for (k, i), a in reversed(list(zip(entries, agree))):
        idt = ite(a, str(i), idt)
    eid = "(- 1)"
    for (k, i), e in reversed(list(zip(entries, exact))):
        eid = ite(e, str(i), eid)
    found = lor([any_exact, "(= %s 1)" % n_agree])
    ident = ite(any_exact, eid, idt)
    return found, ident


def py_spec(entries, path):
    for i, k in enumerate(entries):
        if k == path:
            return i
    agree = [i for i, k in enumerate(entries) if all(path[-1 - j] == k[-1 - j] for j in range(min(len(path), len(k))))]
    return agree[0] if len(agree) == 1 else None


def main():
    tier = sys.argv[1] if len(sys.argv) > 1 else "quick"
    ck = Check(PID, tier, "model_checking")
    tq = 20.0 if tier == "quick" else 120.0
    driver.build()
    path, msecs = mir.dump_mir()
    fns = mir.parse_mir(path)
    gkv = find_fn(fns, r"hierarchy::<impl at src/hierarchy\.rs:\d+:\d+: \d+:\d+>::get_key_value")
    if not gkv:
        ck.inconclusive("Hierarchy::get_key_value not found in the MIR dump")
        return ck.finish(dict(evaluations=0, distinct_nontrivial=0, explanation="missing"))
    maxn = 3 if tier == "quick" else 4
    lens = [1, 2, 3]
    queries, meta = [], {}
    used_fns, used_stubs = set(), set()
    shapes = []
    for n in range(0, maxn + 1):
        for klens in itertools.combinations_with_replacement(lens, n):
            for plen in ([0] + lens if tier != "quick" else lens):
                shapes.append((klens, plen))
    # entries are sorted by key (BTreeMap order); the length multiset alone is not enough, every arrangement of lengths
    # along the sorted order is a different shape
    all_shapes = []
    for klens, plen in shapes:
        for perm in sorted(set(itertools.permutations(klens))):
            all_shapes.append((perm, plen))
    if tier == "quick" and len(all_shapes) > 150:
        import random
        rnd = random.Random(seed())
        keep = [s for s in all_shapes if len(s[0]) <= 2]
        rest = [s for s in all_shapes if len(s[0]) > 2]
        rnd.shuffle(rest)
        all_shapes = keep + rest[:150 - len(keep)]
    nt_reason = None
    for (klens, plen) in all_shapes:
        enc = mir.Enc("math")
        tr = mir.Translator(fns, enc, stubs=hof.STUBS, inline_depth=8)
        entries = []
        for i, L in enumerate(klens):
            entries.append((path_sym(enc, "k%d" % i, L), i))
        lookup = path_sym(enc, "p", plen)
        mapv = Seq.of([Tup([k, V("i64", smt.int_lit(i))]) for k, i in entries])
        try:
            val, panic = tr.translate_fn(gkv, [Tup([mapv]), lookup])
        except mir.NotTranslatable as ex:
            nt_reason = str(ex)
            break
        used_stubs |= set(tr.stubs_used)
        if not isinstance(val, En):
            nt_reason = "result is not an Option"
            break
        is_some = "(= %s 1)" % val.disc
        payload = val.variants.get(1)
        rid = payload[0].items[1].t if (payload and isinstance(payload[0], Tup)) else "(- 1)"
        sorted_keys = [lex_lt(entries[i][0], entries[i + 1][0]) for i in range(len(entries) - 1)]
        sfound, sid = spec_lookup(entries, lookup)
        differ = lor([land([is_some, lnot(sfound)]), land([lnot(is_some), sfound]), land([is_some, sfound, "(not (= %s %s))" % (rid, sid)])])
        names = [v.t for k, _ in entries for _, v in k.items] + [v.t for _, v in lookup.items]
        script = "\n".join(enc.decls + ["(assert %s)" % a for a in sorted_keys + [lor([differ, panic])]] +
                           ["(declare-const r_some Bool)(declare-const r_id Int)(declare-const s_some Bool)(declare-const s_id Int)",
                            "(assert (= r_some %s))(assert (= r_id %s))(assert (= s_some %s))(assert (= s_id %s))" % (is_some, rid, sfound, sid)])
        qid = "Q1/keys=%s/path=%d" % ("-".join(map(str, klens)) or "none", plen)
        queries.append(dict(id=qid, script=script, values=names + ["r_some", "r_id", "s_some", "s_id"]))
        meta[qid] = dict(kind="lookup", klens=klens, plen=plen, names=names)
        # vacuity witness for the largest shapes: a map where the suffix branch returns something
        if len(klens) >= 2 and plen == 1 and max(klens) >= 2:
            wq = "\n".join(enc.decls + ["(assert %s)" % a for a in sorted_keys + [is_some, lnot(lor([hof.seq_eq(k, lookup) for k, _ in entries]))]])
            queries.append(dict(id="W/" + qid, script=wq, values=[]))
            meta["W/" + qid] = dict(kind="witness")
    if nt_reason:
        ck.inconclusive("get_key_value is no longer translatable with the modelled combinators: %s" % nt_reason)
        return ck.finish(dict(evaluations=0, distinct_nontrivial=0, explanation="not translatable"))

    # ---- Q2: inductive step of the fold closure (any map size): counting invariant
    step = find_fn(fns, r"hierarchy::<impl at src/hierarchy\.rs:\d+:\d+: \d+:\d+>::get_key_value::\{closure#1\}::\{closure#0\}")
    into = [n for n, f in fns.items() if n.endswith("::from") and len(f.args) == 1 and f.args[0][1].startswith("Found<")]
    n_step = 0
    if step and into:
        for klen in lens:
            for plen in lens:
                for acc_state in (0, 1, 2):
                    enc = mir.Enc("math")
                    tr = mir.Translator(fns, enc, stubs=hof.STUBS, inline_depth=8)
                    key = path_sym(enc, "k", klen)
                    lookup = path_sym(enc, "p", plen)
                    prev_key = path_sym(enc, "q", 2)
                    acc = En("Found", str(acc_state), {0: [], 1: [Tup([prev_key, V("i64", "77")])], 2: []})
                    try:
                        val, panic = tr.translate_fn(step, [Tup([lookup]), acc, Tup([key, V("i64", "5")])])
                    except mir.NotTranslatable as ex:
                        ck.inconclusive("fold step closure not translatable: %s" % ex)
                        break
                    m = suffix_agree(lookup, key)
                    # counting semantics: state 0/1/2 = 0/1/>=2 matches so far
                    exp_disc = ite(m, {0: "1", 1: "2", 2: "2"}[acc_state], str(acc_state))
                    bad = ["(not (= %s %s))" % (val.disc, exp_disc)]
                    one = val.variants.get(1)
                    if one and isinstance(one[0], Tup):
                        got = one[0].items[1].t
                        exp = ite(m, "5", "77") if acc_state != 1 else "77"
                        bad.append(land(["(= %s 1)" % val.disc, "(not (= %s %s))" % (got, exp)]))
                    qid = "Q2/step/acc=%d/key=%d/path=%d" % (acc_state, klen, plen)
                    queries.append(dict(id=qid, script="\n".join(enc.decls + ["(assert %s)" % lor(bad + [panic])]), values=[]))
                    meta[qid] = dict(kind="step")
                    n_step += 1
    else:
        ck.note("fold step closure / From<Found> not found under their usual names: the inductive sub-check is skipped (Q1 still decides maps up to %d entries)" % maxn)

    results = smt.solve_all(queries, tq, workers=14)
    ck.count(results)
    d = driver.Driver(20.0)
    confirmed = 0
    for r in results:
        info = meta[r["id"]]
        if info["kind"] == "witness":
            if r["status"] != "sat":
                ck.inconclusive("vacuity witness %s is %s" % (r["id"], r["status"]))
            continue
        if r["status"] != "sat":
            continue
        if info["kind"] == "step":
            ck.violation("hierarchy=fold-step/counting-invariant", "the fold step closure does not implement Zero/One/More counting (%s)" % r["id"], dict(query=r["id"]))
            continue
        # rebuild the map with strings whose order mirrors the integer codes
        mv = r["model"]
        codes = sorted(set(int(mv[n]) for n in info["names"]))
        name_of = {c: "s%04d" % i for i, c in enumerate(codes)}
        it = iter(info["names"])
        entries = [[name_of[int(mv[next(it)])] for _ in range(L)] for L in info["klens"]]
        lookup = [name_of[int(mv[next(it)])] for _ in range(info["plen"])]
        ans = d.call(dict(op="hierarchy_get", entries=entries, lookups=[lookup]))
        real = (ans.get("ok") or [{}])[0]
        real_id = real.get("found")
        want = py_spec(entries, lookup)
        if "panic" in real:
            confirmed += 1
            ck.violation("hierarchy=get_key_value/panic", "lookup %s in %s panics: %s" % (lookup, entries, real["panic"]), dict(entries=entries, lookup=lookup))
        elif real_id != want:
            confirmed += 1
            kind = "ambiguous-resolved" if want is None else ("missed" if real_id is None else "wrong-entry")
            ck.violation("hierarchy=get_key_value/" + kind,
                         "lookup %s among %s returns %s, the rule gives %s" % (".".join(lookup), [".".join(e) for e in entries],
                                                                              None if real_id is None else ".".join(entries[real_id]), None if want is None else ".".join(entries[want])),
                         dict(entries=entries, lookup=lookup, real=real, spec=want, query=r["id"]))
        else:
            ck.inconclusive("counterexample %s did not reproduce on the real Hierarchy (encoder mismatch): entries=%s lookup=%s real=%s" % (r["id"], entries, lookup, real_id))
    # ---- translator validation: concrete maps through both sides
    import random
    rnd = random.Random(seed() + 1)
    tv_n = tv_bad = 0
    words = ["a", "b", "c", "d"]
    for _ in range(60 if tier == "quick" else 300):
        n = rnd.randint(0, 4)
        entries = sorted(set(tuple(rnd.choice(words) for _ in range(rnd.randint(1, 3))) for _ in range(n)))
        entries = [list(e) for e in entries]
        lookup = [rnd.choice(words) for _ in range(rnd.randint(1, 3))]
        ans = d.call(dict(op="hierarchy_get", entries=entries, lookups=[lookup]))
        real_id = (ans.get("ok") or [{}])[0].get("found")
        # encoded side: evaluate the translated function with all symbols fixed
        enc = mir.Enc("math")
        tr = mir.Translator(fns, enc, stubs=hof.STUBS, inline_depth=8)
        code = {w: i for i, w in enumerate(words)}
        mapv = Seq.of([Tup([Seq.of([V("str", str(code[w])) for w in e]), V("i64", str(i))]) for i, e in enumerate(entries)])
        val, panic = tr.translate_fn(gkv, [Tup([mapv]), Seq.of([V("str", str(code[w])) for w in lookup])])
        payload = val.variants.get(1)
        rid = payload[0].items[1].t if (payload and isinstance(payload[0], Tup)) else "(- 1)"
        q = dict(id="tv", script="\n".join(enc.decls + ["(declare-const s Bool)(declare-const i Int)(assert (= s (= %s 1)))(assert (= i %s))" % (val.disc, rid)]), values=["s", "i"])
        tv_n += 1
        res = TVPOOL.solve(q, 20.0)
        enc_id = int(res["model"]["i"]) if res["status"] == "sat" and res["model"]["s"] is True else None
        if res["status"] != "sat" or enc_id != real_id or py_spec(entries, lookup) != real_id and False:
            tv_bad += 1
            ck.inconclusive("translator validation mismatch: entries=%s lookup=%s real=%s encoded=%s" % (entries, lookup, real_id, enc_id))
    # ---- query-level clause: enumerated negative programs through the real compiler
    tables = [dict(name="t", size=3, fields=[dict(name="id", dt=driver.t_int((0, 9))), dict(name="x", dt=driver.t_int((0, 9)))]),
              dict(name="u", size=3, fields=[dict(name="id", dt=driver.t_int((0, 9))), dict(name="y", dt=driver.t_int((0, 9)))]),
              dict(name="w", size=3, fields=[dict(name="id", dt=driver.t_int((0, 9))), dict(name="z", dt=driver.t_int((0, 9)))]),
              dict(name="v", size=3, fields=[dict(name="id", dt=driver.t_int((0, 9))), dict(name="q", dt=driver.t_int((0, 9)))])]
    progs = [("SELECT id FROM t JOIN u ON t.id = u.id", "ambiguous"), ("SELECT id FROM t, u", "ambiguous"), ("SELECT x, id FROM t LEFT JOIN u ON t.x = u.y", "ambiguous"),
             ("SELECT id FROM t JOIN u USING (id)", "resolved"), ("SELECT id FROM t NATURAL JOIN u", "resolved"), ("SELECT t.id FROM t JOIN u ON t.id = u.id", "resolved"),
             ("SELECT a.id FROM t AS a JOIN t AS b ON a.id = b.id", "resolved"), ("SELECT id FROM t AS a JOIN t AS b ON a.id = b.id", "ambiguous"),
             # the same name in two, three and four joined relations, directly and through SELECT * of a CTE / derived table
             ("WITH j AS (SELECT * FROM t JOIN u ON t.id = u.id) SELECT id FROM j", "ambiguous"),
             ("SELECT id FROM t JOIN u ON t.id = u.id JOIN w ON u.id = w.id", "ambiguous"),
             ("WITH j AS (SELECT * FROM t JOIN u ON t.id = u.id JOIN w ON u.id = w.id) SELECT id FROM j", "ambiguous"),
             ("SELECT id FROM (SELECT * FROM t JOIN u ON t.id = u.id JOIN w ON u.id = w.id) AS j", "ambiguous"),
             ("WITH j AS (SELECT * FROM t JOIN u ON t.id = u.id JOIN w ON u.id = w.id JOIN v ON w.id = v.id) SELECT id FROM j", "ambiguous"),
             ("WITH j AS (SELECT * FROM t JOIN u ON t.id = u.id JOIN w ON u.id = w.id) SELECT x, y, z FROM j", "resolved"),
             ("SELECT w.id FROM t JOIN u ON t.id = u.id JOIN w ON u.id = w.id", "resolved"),
             # a USING / NATURAL merge followed by a plain join that brings the name in again
             ("SELECT id FROM t JOIN u USING (id) JOIN w ON t.id = w.id", "ambiguous"),
             ("SELECT id FROM t NATURAL JOIN u JOIN w ON u.y = w.z", "ambiguous"),
             ("SELECT id FROM t JOIN u USING (id) CROSS JOIN w", "ambiguous"),
             ("SELECT id FROM t JOIN u USING (id) JOIN w USING (id)", "resolved"),
             ("SELECT x, z FROM t JOIN u USING (id) JOIN w ON t.id = w.id", "resolved")]
    neg = []
    for sql, expect in progs:
        ans = d.call(dict(op="relation", tables=tables, sql=sql))
        outcome = "refused" if ("err" in ans or "panic" in ans) else "accepted"
        neg.append(dict(sql=sql, expect=expect, outcome=outcome, detail=(ans.get("err") or ans.get("panic") or "")[:120]))
        if expect == "ambiguous" and outcome == "accepted":
            ck.violation("query=ambiguous-column-bound", "`%s` is accepted although `id` names a column of several joined relations" % sql, dict(sql=sql))
        if expect == "resolved" and outcome == "refused" and "panic" not in ans:
            ck.note("`%s` has one resolution but is refused: %s" % (sql, (ans.get("err") or "")[:120]))
    d.close()
    TVPOOL.close()
    n1 = sum(1 for q in queries if q["id"].startswith("Q1/"))
    cov = dict(
        states=len(queries), transitions=len(queries), traces_validated_against_impl=tv_n + confirmed,
        functions_encoded=[gkv, step] + into + [n for n in fns if n.startswith("hierarchy::is_suffix_of")],
        combinator_models_used=sorted(used_stubs),
        bounds=dict(map_entries="<= %d" % maxn, path_length="1..3 (thorough: lookup 0..3)", alphabet="unbounded (integer codes, equality and order only)",
                    shapes=len(all_shapes), inductive_step_queries=n_step,
                    outside=["maps with more than %d entries for the exact-match branch (the suffix branch is covered for any size by the inductive step)" % maxn,
                             "paths longer than 3 components", "the SQL-level clause is enumeration of %d programs, not a solver claim" % len(progs)]),
        lookup_queries=n1, negative_programs=neg,
        evaluations=len(queries), distinct_nontrivial=len(set(q["script"] for q in queries)),
    )
    ck.samples = [dict(shape="keys of lengths %s, lookup of length %d" % (list(k), p)) for k, p in all_shapes[:6]]
    return ck.finish(cov, assumptions=[
        "std combinator models of lib/hof.py (BTreeMap::get_key_value/iter, Iterator::{rev,zip,all,fold,filter,...}, Option::{map,or_else}); validated on %d concrete maps against the real Hierarchy this run" % tv_n,
        "BTreeMap iterates in lexicographic key order (assumed as a constraint on the symbolic keys)",
    ])


TVPOOL = smt.Pool(["z3new", "cvc5"])

if __name__ == "__main__":
    sys.exit(main())
