#!/usr/bin/env python3-vt
"""C06 - range propagation is sound for every function, aggregate and expression (supported core).

A  function grid: for every scalar function of the supported core and argument types on a boundary grid (intervals
   touching i64::MIN/MAX, 2^53, 0, singletons, unions, value sets, optional wrappers, mixed int/float) the real
   `Function::super_image` is run (driver) giving I; the solver searches the whole argument box for a point whose value
   - computed by the MIR-translated kernel under the dispatch model of Expr::value - is outside I (bit-vectors/doubles).
B  expression trees (depth <= 3) over struct types: real `Expr::super_image` vs all rows.
C  hull lemmas with SYMBOLIC boxes for the integer arithmetic kernels (non-linear integer arithmetic): on each sign
   piece the kernel's value lies between the min and max of its four corner values.
D  aggregates on lists of <= 3 symbolic elements against the real `Aggregate::super_image`.
E  sin / cos / exp / ln / log / sqrt: the MIR kernel applies an uninterpreted libm function to its argument; on a grid of
   concrete argument intervals (every multiple of pi/2 straddled asymmetrically, random offsets and widths) the solver is
   given the piecewise-monotone envelope of that function (a mathematical fact, end values from libm, tolerance 1e-9) and
   searches every point x of the interval for a value outside the real propagated image. A sat answer is a sub-interval;
   the real kernel is probed on it (model point, end and critical points) and only a reproduced point is reported.
Counterexamples are replayed with the real Function::value / Expr::value / Aggregate::value and DataType::contains.
"""
import os, sys, json, random, itertools, fractions, math, re
sys.path.insert(0, os.path.join(os.path.dirname(os.path.abspath(__file__)), "..", "lib"))
import mir, smt, kern, driver, gen, exprsem, dtsem
from common import Check, seed
from smt import land, lor, lnot, ite
from gen import col, val, fn, I64_MIN, I64_MAX, P53, FMAX

PID = "C06"
TYS = {"Integer": "i64", "Float": "f64", "Boolean": "bool"}
VAR = {"i64": "Integer", "f64": "Float", "bool": "Boolean"}
SORT = {"bool": "Bool", "i64": "(_ BitVec 64)", "f64": "(_ FloatingPoint 11 53)"}

BIN_NUM = ["Plus", "Minus", "Multiply", "Divide", "Least", "Greatest", "Gt", "Lt", "GtEq", "LtEq", "Eq", "NotEq"]
UN_NUM = ["Opposite", "Abs", "Sign", "Ceil", "Floor", "CastAsFloat", "CastAsInteger"]
BIN_BOOL = ["And", "Or", "Xor"]


def type_grid(tier):
    T = driver
    ints = [T.t_int((0, 10)), T.t_int((-5, 5)), T.t_int((I64_MIN, I64_MAX)), T.t_int((I64_MAX - 2, I64_MAX)), T.t_int((I64_MIN, I64_MIN + 2)), T.t_int((1, 1), (5, 5)), T.t_int((-3, -1), (2, 4)),
            T.t_int((P53 - 1, P53 + 3)), T.t_int((0, 0)), T.t_int((1, 3)), T.t_int((-1, 1)), T.t_int((I64_MIN, -1)), T.t_int((3_000_000_000, 4_000_000_000))]
    floats = [T.t_float((0.0, 10.0)), T.t_float((-1.5, 2.5)), T.t_float((-FMAX, FMAX)), T.t_float((0.5, 0.5), (2.0, 2.0)), T.t_float((FMAX / 2, FMAX)), T.t_float((-10.0, -0.5)), T.t_float((0.0, 0.0)),
              T.t_float((1e-300, 1e-299)), T.t_float((0.1, 0.9)), T.t_float((-0.75, 0.25))]
    if tier == "quick":
        ints, floats = ints[:9], floats[:7]
    return ints, floats, [T.t_bool((False, True)), T.t_bool((True, True)), T.t_bool((False, False))]


def main():
    tier = sys.argv[1] if len(sys.argv) > 1 else "quick"
    ck = Check(PID, tier, "model_checking")
    tq = 20.0 if tier == "quick" else 120.0
    driver.build()
    path, _ = mir.dump_mir()
    fns = mir.parse_mir(path)
    rnd = random.Random(seed() * 104729 + 6)
    ints, floats, bools = type_grid(tier)
    sem = dtsem.Sem(fns)

    # ------------------------------------------------------------------ A: function grid
    cases = []   # (expr over columns a,b ; struct type)
    nums = ints + floats
    def add_case(f, types):
        names = "ab"[:len(types)]
        cases.append((fn(f, *[col(n) for n in names]), driver.t_struct(list(zip(names, types))), "A"))
    pairs = list(itertools.product(nums, nums))
    rnd.shuffle(pairs)
    per_fn = 30 if tier == "quick" else 400
    for f in BIN_NUM:
        if f in ("Eq", "NotEq"):
            same = [(a, b) for a, b in pairs if a["t"] == b["t"]]
            for a, b in same[:per_fn // 2]:
                add_case(f, [a, b])
            continue
        for a, b in pairs[:per_fn]:
            add_case(f, [a, b])
        for a, b in pairs[:8]:
            add_case(f, [driver.t_opt(a), b])
    for a, b in list(itertools.product(ints, ints))[:per_fn // 2]:
        add_case("Modulo", [a, b])
    for f in UN_NUM:
        for a in nums:
            if f == "CastAsFloat" and a["t"] != "Integer":
                continue
            if f == "CastAsInteger" and a["t"] != "Float":
                continue
            add_case(f, [a])
            add_case(f, [driver.t_opt(a)])
    for f in ("Round", "Trunc"):
        for a in floats:
            for d_ in (driver.t_int((0, 0)), driver.t_int((2, 2)), driver.t_int((-1, 1)), driver.t_int((0, 3))):
                add_case(f, [a, d_])
    for f in BIN_BOOL:
        for a, b in itertools.product(bools, bools):
            add_case(f, [a, b])
    for a in bools:
        add_case("Not", [a])
        add_case("Not", [driver.t_opt(a)])
    # CASE / COALESCE / IS NULL / IN
    for a, b in pairs[:per_fn // 3]:
        cases.append((fn("Case", fn("Gt", col("a"), col("b")), col("a"), col("b")), driver.t_struct([("a", a), ("b", b)]), "A"))
        cases.append((fn("Coalesce", col("a"), col("b")), driver.t_struct([("a", driver.t_opt(a)), ("b", b)]), "A"))
        cases.append((fn("IsNull", col("a")), driver.t_struct([("a", driver.t_opt(a))]), "A"))
    # ------------------------------------------------------------------ B: expression trees
    def expr_tree(T, depth):
        numc = gen.numeric_cols(T)
        if depth == 0 or rnd.random() < 0.25 or not numc:
            if numc and rnd.random() < 0.8:
                return col(rnd.choice(numc)[0])
            return gen.lit_for(rnd, rnd.choice(T["fields"])[1]) if T["fields"] else val(driver.v_int(1))
        r = rnd.random()
        if r < 0.6:
            return fn(rnd.choice(["Plus", "Minus", "Multiply", "Least", "Greatest", "Plus", "Minus"]), expr_tree(T, depth - 1), expr_tree(T, depth - 1))
        if r < 0.75:
            return fn(rnd.choice(["Abs", "Opposite", "Ceil", "Floor", "Sign"]), expr_tree(T, depth - 1))
        if r < 0.9:
            return fn("Case", gen.atom(rnd, T), expr_tree(T, depth - 1), expr_tree(T, depth - 1))
        return fn("Divide", expr_tree(T, depth - 1), gen.lit_for(rnd, rnd.choice(numc)[1]))
    nB = 90 if tier == "quick" else 2500
    for _ in range(nB):
        T = gen.struct_type(rnd, allow_optional=rnd.random() < 0.3)
        cases.append((expr_tree(T, rnd.choice([2, 3])), T, "B"))

    answers = driver.parallel_batch([dict(op="expr_super_image", expr=e, dt=T) for e, T, _ in cases], workers=12, timeout=30.0)
    queries, meta = [], {}
    skipped = {}
    nA = nBq = 0
    for ci, ((e, T, part), ans) in enumerate(zip(cases, answers)):
        if "panic" in ans:
            # a panic in range propagation is C18's finding; it makes this case undecidable here
            skipped["super_image panics (C18)"] = skipped.get("super_image panics (C18)", 0) + 1
            continue
        if "timeout" in ans or "crash" in ans:
            ck.inconclusive("driver failed on super_image of %s" % gen.show(e))
            continue
        bank = exprsem.Bank(fns, "bv")
        ev = exprsem.Evaluator(bank, "value")
        decls, env, pre, names, rowvals = [], {}, [], [], {}
        for f, ft in T["fields"]:
            b = gen.base(ft)
            ty = TYS[b["t"]]
            v = "r_%s" % f
            decls.append("(declare-const %s %s)" % (v, SORT[ty]))
            names.append(v)
            nn = "false"
            if ft["t"] == "Optional":
                nn = "r_%s_null" % f
                decls.append("(declare-const %s Bool)" % nn)
                names.append(nn)
            env[(f,)] = exprsem.Cell(nn, ty, v, ft["t"] == "Optional")
            mem = kern.member(b, v)
            if ty == "f64":
                mem = land([mem, "(not (fp.isNaN %s))" % v])
            pre.append(lor([nn, mem]) if nn != "false" else mem)
            rowvals[f] = (nn, ty, v)
        try:
            c = ev.eval(e, env)
        except exprsem.Unsupported as ex:
            skipped[str(ex)[:50]] = skipped.get(str(ex)[:50], 0) + 1
            continue
        # panicking inputs (division by zero ...) are C18's business: excluded here, stated
        nopanic = [lnot(p) for p in bank.panics]
        # Integer -> Float promotion rounds beyond 2^53 (C12's known finding): where integers meet floats the claim is
        # restricted to |int| <= 2^53; the region beyond is asked separately (twin query X/..) and reported under one role key
        tys_here = {rowvals[f][1] for f in rowvals}
        ej = json.dumps(e)
        float_fn = any(('"f": "%s"' % f_) in ej for f_ in exprsem.FLOAT_UNARY) or '"f": "Divide"' in ej or '"f": "Round"' in ej or '"f": "Trunc"' in ej or '"f": "Pow"' in ej
        int_lit_big = any(abs(int(x)) > P53 for x in re.findall(r'"t": "Integer", "v": "(-?\d+)"', ej))
        mixed = ("i64" in tys_here or int_lit_big) and ("f64" in tys_here or "Float" in ej or float_fn)
        if mixed and int_lit_big:
            # an integer literal beyond 2^53 meeting float arithmetic: the rounding of the promotion is C12's finding and cannot
            # be excluded through the columns; outside the claim
            skipped["integer literal beyond 2^53 in float arithmetic"] = skipped.get("integer literal beyond 2^53 in float arithmetic", 0) + 1
            continue
        small = [land(["(bvsle %s %s)" % (smt.bv64(-P53), rowvals[f][2]), "(bvsle %s %s)" % (rowvals[f][2], smt.bv64(P53))]) for f in rowvals if rowvals[f][1] == "i64"] if mixed else []
        if "ok" not in ans:
            # range propagation fails: a violation as soon as the value exists for some input
            bad = lnot(c.n)
            I = None
        else:
            I = ans["ok"]
            sem.decls = []
            sv = ("s", VAR[c.ty] if c.ty in VAR else "Integer", c.t)
            if c.ty == "f64":
                # a NaN result is turned into NULL by checked_value (co_domain.contains fails)
                isnan = "(fp.isNaN %s)" % c.t
                null = lor([c.n, isnan])
            else:
                null = c.n
            base_I = I["of"] if I["t"] == "Optional" else I
            try:
                inb = sem.member(base_I, sv) if base_I["t"] in ("Integer", "Float", "Boolean", "Any", "Null") else None
            except ValueError:
                inb = None
            if inb is None:
                skipped["image of type " + base_I["t"]] = skipped.get("image of type " + base_I["t"], 0) + 1
                continue
            ok_null = "true" if I["t"] == "Optional" else "false"
            bad = ite(null, lnot(ok_null), lnot(inb))
            decls = decls + sem.decls
        script = "\n".join(decls + ev.declarations() + ["(assert %s)" % x for x in pre + ev.side_constraints() + nopanic + small + [bad]])
        qid = "%s/%d" % (part, ci)
        queries.append(dict(id=qid, script=script, values=names))
        meta[qid] = dict(e=e, T=T, I=I, image_s=ans.get("s"), err=ans.get("err"), rowvals=rowvals)
        if small and (ci % 7 == 0):
            script = "\n".join(decls + ev.declarations() + ["(assert %s)" % x for x in pre + ev.side_constraints() + nopanic + [lnot(land(small)), bad]])
            queries.append(dict(id="X/%d" % ci, script=script, values=names))
            meta["X/%d" % ci] = dict(e=e, T=T, I=I, image_s=ans.get("s"), err=ans.get("err"), rowvals=rowvals, beyond=True)
        nA += part == "A"
        nBq += part == "B"
        if ci % 97 == 0:
            ck.sample(dict(expr=gen.show(e), type=json.dumps(T)[:240], image=ans.get("s") or ans.get("err")))

    # ------------------------------------------------------------------ C: hull lemmas, symbolic boxes (math mode, NIA)
    pieces = {"Plus": [None], "Minus": [None], "Least": [None], "Greatest": [None],
              "Multiply": [(">=", ">="), (">=", "<="), ("<=", ">="), ("<=", "<=")], "Divide": [(">=", ">"), (">=", "<"), ("<=", ">"), ("<=", "<")]}
    bankm = exprsem.Bank(fns, "math")
    for f, ps in pieces.items():
        name = bankm.kernel_name(f, 0)
        if name is None:
            ck.inconclusive("integer kernel of %s not found" % f)
            continue
        for pi_, piece in enumerate(ps):
            k = kern.Kernel(fns, name, "math")
            decls = ["(declare-const %s Int)" % v for v in ("x1", "x2", "y1", "y2", "x", "y")]
            rng = lambda v: "(and (<= %d %s) (<= %s %d))" % (I64_MIN, v, v, I64_MAX)
            pre = [rng(v) for v in ("x1", "x2", "y1", "y2")] + ["(<= x1 x) (<= x x2) (<= y1 y) (<= y y2)".replace(") (", ")) (assert (")]
            pre = [rng(v) for v in ("x1", "x2", "y1", "y2")] + ["(<= x1 x)", "(<= x x2)", "(<= y1 y)", "(<= y y2)"]
            if piece:
                pre += ["(%s x1 0)" % piece[0] if piece[0] == ">=" else "(<= x2 0)", ("(%s y1 0)" % piece[1]) if piece[1] in (">=", ">") else ("(%s y2 0)" % piece[1])]
            insts, sides, dd = {}, [], []
            for tag, (ax, ay) in dict(p=("x", "y"), c11=("x1", "y1"), c12=("x1", "y2"), c21=("x2", "y1"), c22=("x2", "y2")).items():
                i = k.inst([ax, ay])
                insts[tag] = i["val"].t
                sides += i["side"]
                dd += i["decls"]
            corners = [insts[t] for t in ("c11", "c12", "c21", "c22")]
            lo = "(and %s)" % " ".join("(< %s %s)" % (insts["p"], c) for c in corners)
            hi = "(and %s)" % " ".join("(> %s %s)" % (insts["p"], c) for c in corners)
            qid = "C/%s/piece%d" % (f, pi_)
            queries.append(dict(id=qid, script="\n".join(decls + dd + ["(assert %s)" % x for x in pre + sides + [lor([lo, hi])]]), values=["x1", "x2", "y1", "y2", "x", "y"], solvers=["cvc5", "z3new", "z3"]))
            meta[qid] = dict(hull=f, piece=piece)

    # ------------------------------------------------------------------ D: aggregates (math mode)
    agg_jobs = []
    elem_types = [driver.t_int((0, 10)), driver.t_int((-5, 5)), driver.t_int((1, 1), (5, 5)), driver.t_float((0.0, 10.0)), driver.t_float((-1.5, 2.5)), driver.t_float((3.0, 3.0)),
                  # element types with gaps (value sets, disjoint intervals): an aggregate of several elements can fall into a gap
                  driver.t_float((0.0, 0.0), (10.0, 10.0)), driver.t_float((0.0, 1.0), (5.0, 6.0)), driver.t_int((0, 2), (8, 10))]
    sizes = [(1, 1), (2, 2), (3, 3), (1, 3), (0, 3), (1, 2), (2, 3), (0, 1)]
    aggs = ["Sum", "Mean", "Min", "Max", "Count", "First", "Last", "Var", "Std"]
    for a in aggs:
        for et in elem_types:
            for sz in sizes:
                lt = {"t": "List", "of": et, "size": [[str(sz[0]), str(sz[1])]]}
                agg_jobs.append((a, et, sz, lt))
    agg_ans = driver.parallel_batch([dict(op="agg_super_image", a=a, dt=lt) for a, et, sz, lt in agg_jobs], workers=8, timeout=30.0)
    for ai, ((a, et, sz, lt), ans) in enumerate(zip(agg_jobs, agg_ans)):
        if "ok" not in ans:
            if "panic" in ans:
                ck.violation("aggregate=%s/super_image-panics" % a, "super_image of %s on %s panics: %s" % (a, json.dumps(lt), ans["panic"]), dict(agg=a, type=lt))
            continue
        I = ans["ok"]
        isint = et["t"] == "Integer"
        if a in ("Mean", "Var", "Std") and isint:
            continue  # Aggregate::value answers `none` on integer lists for the float-only aggregates (conversion of the list fails): outside
        for n in range(max(1, sz[0]), sz[1] + 1):
            std_mode = False
            xs = ["e%d" % i for i in range(n)]
            decls = ["(declare-const %s %s)" % (x, "Int" if isint else "Real") for x in xs]
            pre = [kern.member(et, x, "math") for x in xs]
            tr = (lambda t: t) if not isint else (lambda t: "(to_real %s)" % t)
            S = "(+ %s)" % " ".join(xs) if n > 1 else xs[0]
            if a == "Sum":
                y, yint = S, isint
            elif a == "Count":
                y, yint = str(n), True
            elif a == "Mean":
                y, yint = "(/ %s %d.0)" % (tr(S), n), False
            elif a in ("Min", "Max"):
                y = xs[0]
                for x in xs[1:]:
                    y = ite("(%s %s %s)" % ("<=" if a == "Min" else ">=", x, y), x, y)
                yint = isint
            elif a in ("First", "Last"):
                y, yint = (xs[0] if a == "First" else xs[-1]), isint
            else:
                if n < 2:
                    continue  # 0/0: NaN -> NULL under Expr::value
                mean = "(/ %s %d.0)" % (tr(S), n)
                ss = "(+ %s)" % " ".join("(* (- %s %s) (- %s %s))" % (tr(x), mean, tr(x), mean) for x in xs)
                var = "(/ %s %d.0)" % (ss, n - 1)
                y, yint = var, False
                if a == "Std":
                    std_mode = True
            base_I = I["of"] if I["t"] == "Optional" else I
            if base_I["t"] == "Integer":
                inb = kern.member(base_I, y if yint else "(to_int %s)" % y, "math") if yint else land(["(= (to_real (to_int %s)) %s)" % (y, y), kern.member(base_I, "(to_int %s)" % y, "math")])
            elif base_I["t"] == "Float" and std_mode:
                # std in [lo, hi] (lo, hi >= 0)  <=>  var in [lo^2, hi^2]: avoids an irrational witness
                alts = []
                for lo_, hi_ in base_I["iv"]:
                    flo, fhi = kern.bits_to_float(lo_), kern.bits_to_float(hi_)
                    c_ = []
                    if flo > 0:
                        c_.append("(>= %s %s)" % (y, smt.real_lit(fractions.Fraction(flo) ** 2)))
                    else:
                        c_.append("(>= %s 0.0)" % y)
                    if fhi < 1e150:
                        c_.append("(<= %s %s)" % (y, smt.real_lit(fractions.Fraction(fhi) ** 2)))
                    alts.append(land(c_))
                inb = lor(alts)
            elif base_I["t"] == "Float":
                inb = kern.member(base_I, tr(y) if yint else y, "math")
            else:
                continue
            qid = "D/%d/n=%d" % (ai, n)
            queries.append(dict(id=qid, script="\n".join(decls + ["(assert %s)" % x for x in pre + [lnot(inb)]]), values=xs, solvers=["cvc5", "z3new", "z3"]))
            meta[qid] = dict(agg=a, et=et, sz=sz, n=n, I=I, image_s=ans.get("s"), xs=xs, isint=isint)

    # ------------------------------------------------------------------ E: transcendental kernels (math mode, envelope axioms)
    # sin / cos / exp / ln / log / sqrt stay uninterpreted for the solver; what it is told about them is the mathematical
    # fact that they are monotone between consecutive critical points, instantiated on the concrete argument interval
    # (numeric end values from libm, tolerance 1e-9). The point x stays symbolic: the verdict is over every x of the interval.
    TOL = fractions.Fraction(1, 10 ** 9)
    def crit(fname, a, b):
        if fname in ("Sin", "Cos"):
            off = math.pi / 2 if fname == "Sin" else 0.0
            k0 = math.ceil((a - off) / math.pi)
            cs = []
            k = k0
            while off + k * math.pi < b and len(cs) < 64:
                c = off + k * math.pi
                if c > a:
                    cs.append(c)
                k += 1
            return cs
        return []
    PYF = dict(Sin=math.sin, Cos=math.cos, Exp=math.exp, Ln=math.log, Log=math.log10, Sqrt=math.sqrt)
    tgrid = []
    rnd_e = random.Random(seed() + 17)
    for j in range(-8, 9):
        c = j * math.pi / 2
        for d1, d2 in ((0.2, 1.3), (1.3, 0.2), (0.5, 0.5), (0.1, 3.5), (3.5, 0.1), (2.0, 5.0), (0.01, 0.02)):
            tgrid.append(("Sin", c - d1, c + d2))
            tgrid.append(("Cos", c - d1, c + d2))
    for _ in range(40 if tier == "quick" else 600):
        a = rnd_e.uniform(-30, 30)
        w = rnd_e.choice([0.05, 0.7, 1.6, 3.0, 4.5, 6.0, 7.0])
        tgrid.append((rnd_e.choice(["Sin", "Cos"]), a, a + w * rnd_e.uniform(0.5, 1.0)))
    for a, b in ((-3.0, 2.0), (0.0, 1.0), (-700.0, -1.0), (1.0, 700.0), (0.5, 0.5), (-0.25, 10.0)):
        tgrid.append(("Exp", a, b))
    for a, b in ((0.5, 2.0), (1.0, 1.0), (1e-3, 1e6), (2.0, 1e300), (1e-300, 1.0)):
        tgrid.append(("Ln", a, b)); tgrid.append(("Log", a, b)); tgrid.append(("Sqrt", a, b))
    tgrid.append(("Sqrt", 0.0, 4.0))
    t_ans = driver.parallel_batch([dict(op="expr_super_image", expr=fn(f, col("x")), dt=driver.t_struct([("x", driver.t_float((a, b)))])) for f, a, b in tgrid], workers=12, timeout=30.0)
    nE = 0
    for ti, ((f, a, b), ans) in enumerate(zip(tgrid, t_ans)):
        if "ok" not in ans:
            if "panic" in ans:
                skipped["super_image panics (C18)"] = skipped.get("super_image panics (C18)", 0) + 1
            else:
                ck.violation("expr=super_image-fails-but-value-exists/top=%s" % f, "range propagation of %s fails on float[%r, %r]: %s" % (f, a, b, ans.get("err")), dict(f=f, a=a, b=b))
            continue
        I = ans["ok"]
        base_I = I["of"] if I["t"] == "Optional" else I
        if base_I["t"] != "Float":
            skipped["image of type " + base_I["t"]] = skipped.get("image of type " + base_I["t"], 0) + 1
            continue
        name = bankm.kernel_name(f, 0)
        if name is None:
            ck.inconclusive("kernel of %s not found" % f)
            continue
        try:
            inst = kern.Kernel(fns, name, "math").inst(["x"])
        except mir.NotTranslatable as ex:
            ck.inconclusive("kernel of %s not translatable: %s" % (f, ex))
            continue
        ufs = set(re.findall(r"\((uf_\w+) x(?: [0-9.]+)?\)", inst["val"].t))
        if f == "Sqrt":
            app = None
        elif len(ufs) != 1 or {"Sin": "uf_sin", "Cos": "uf_cos", "Exp": "uf_exp", "Ln": "uf_ln", "Log": "uf_log"}[f] not in ufs:
            # the kernel no longer applies the expected libm function to its argument: nothing is known about it -> the
            # envelope below does not constrain it and the query reports the first point (sound: uninterpreted)
            app = None
        else:
            app = re.search(r"\(uf_\w+ x(?: [0-9.]+)?\)", inst["val"].t).group(0)
        fa, fb = fractions.Fraction(a), fractions.Fraction(b)
        pts = [a] + crit(f, a, b) + [b]
        env = []
        if app is not None:
            for c0, c1 in zip(pts, pts[1:]):
                v0, v1 = PYF[f](c0), PYF[f](c1)
                if f in ("Sin", "Cos"):
                    # critical values are exactly +-1
                    v0 = round(v0) if (c0 != a) else v0
                    v1 = round(v1) if (c1 != b) else v1
                lo_, hi_ = fractions.Fraction(min(v0, v1)) - TOL * max(1, abs(fractions.Fraction(min(v0, v1)))), fractions.Fraction(max(v0, v1)) + TOL * max(1, abs(fractions.Fraction(max(v0, v1))))
                env.append("(=> (and (<= %s x) (<= x %s)) (and (<= %s %s) (<= %s %s)))" % (smt.real_lit(fractions.Fraction(c0)), smt.real_lit(fractions.Fraction(c1)), smt.real_lit(lo_), app, app, smt.real_lit(hi_)))
        # membership with the same relative slack on the image side (float rounding of libm is outside the claim)
        alts = []
        for lo_b, hi_b in base_I["iv"]:
            flo, fhi = kern.bits_to_float(lo_b), kern.bits_to_float(hi_b)
            c_ = []
            if flo > -1.7e308:
                L = fractions.Fraction(flo); c_.append("(>= y %s)" % smt.real_lit(L - 2 * TOL * max(1, abs(L))))
            if fhi < 1.7e308:
                H = fractions.Fraction(fhi); c_.append("(<= y %s)" % smt.real_lit(H + 2 * TOL * max(1, abs(H))))
            alts.append(land(c_))
        decls = ["(declare-const x Real)", "(declare-const y Real)"] + inst["decls"]
        pre = ["(<= %s x)" % smt.real_lit(fa), "(<= x %s)" % smt.real_lit(fb), "(= y %s)" % inst["val"].t] + inst["side"] + env
        qid = "E/%d/%s" % (ti, f)
        queries.append(dict(id=qid, script="\n".join(decls + ["(assert %s)" % z for z in pre + [lnot(lor(alts))]]), values=["x", "y"], solvers=["z3new", "cvc5", "z3"]))
        meta[qid] = dict(trans=f, a=a, b=b, I=I, image_s=ans.get("s"), pts=pts)
        nE += 1

    results = smt.solve_all(queries, tq, workers=14, progress=2000)
    ck.count(results)
    part_time = {}
    for r in results:
        k = r["id"].split("/")[0]
        part_time[k] = round(part_time.get(k, 0.0) + r.get("time_s", 0.0), 1)
    ck.note("solver seconds by part: %s" % part_time)
    d = driver.Driver(30.0)
    replayed = 0
    for r in results:
        if r["status"] != "sat":
            continue
        info = meta[r["id"]]
        replayed += 1
        if "hull" in info:
            mv = {k: int(v) for k, v in r["model"].items()}
            f = info["hull"]
            box = driver.t_struct([("a", driver.t_int((mv["x1"], mv["x2"]))), ("b", driver.t_int((mv["y1"], mv["y2"])))])
            e = fn(f, col("a"), col("b"))
            si = d.call(dict(op="expr_super_image", expr=e, dt=box))
            rv = d.call(dict(op="fn_value", f=f, args=[driver.v_int(mv["x"]), driver.v_int(mv["y"])]))
            inside = d.call(dict(op="contains", dt=si["ok"], values=[rv["ok"]])).get("ok", [None])[0] if ("ok" in si and "ok" in rv) else None
            if inside is False:
                ck.violation("hull=%s/not-monotone-on-piece" % f, "%s(%d, %d) = %s is outside the image %s of the box [%d,%d]x[%d,%d]" % (f, mv["x"], mv["y"], rv.get("s"), si.get("s"), mv["x1"], mv["x2"], mv["y1"], mv["y2"]), dict(model=mv))
            else:
                ck.note("hull lemma %s piece %s: the kernel leaves the corner hull at %s but the real image of that box still contains the value (the declared partition is finer): %s" % (f, info["piece"], mv, si.get("s")))
            continue
        if "trans" in info:
            # the solver's x is one point of a sub-interval where the envelope allows a value outside the image; the real
            # kernel decides: probe the model point, the end points and the critical points of the interval it came from
            f = info["trans"]
            mx = r["model"].get("x")
            cand = [float(fractions.Fraction(mx))] if mx is not None and not isinstance(mx, tuple) else []
            cand += [p for p in info["pts"]] + [(p + q) / 2 for p, q in zip(info["pts"], info["pts"][1:])]
            hit = None
            for xv in cand:
                if not (info["a"] <= xv <= info["b"]):
                    continue
                rv = d.call(dict(op="expr_value", expr=fn(f, col("x")), v={"t": "Struct", "fields": [["x", driver.v_float(xv)]]}))
                if "ok" not in rv:
                    continue
                val_ = rv["ok"]["v"] if rv["ok"].get("t") == "Optional" and rv["ok"].get("v") is not None else rv["ok"]
                inside = d.call(dict(op="contains", dt=info["I"], values=[val_])).get("ok", [None])[0]
                if inside is False:
                    hit = (xv, rv.get("s"))
                    break
            if hit:
                ck.violation("expr=value-outside-image/top=%s/transcendental" % f, "%s(%r) = %s is outside the image %s propagated for float[%r, %r]" % (f, hit[0], hit[1], info["image_s"], info["a"], info["b"]),
                             dict(f=f, x=hit[0], interval=[info["a"], info["b"]], image=info["I"]))
            else:
                ck.inconclusive("transcendental counterexample %s (%s on [%r, %r], image %s, model x=%s) did not reproduce on the probed points" % (r["id"], f, info["a"], info["b"], info["image_s"], mx))
            continue
        if "agg" in info:
            vals = []
            for x in info["xs"]:
                mvx = r["model"][x]
                vals.append(driver.v_int(int(mvx)) if info["isint"] else driver.v_float(float(fractions.Fraction(mvx)) if not isinstance(mvx, tuple) else 0.0))
            lst = {"t": "List", "v": vals}
            rv = d.call(dict(op="agg_value", a=info["agg"], v=lst))
            inside = d.call(dict(op="contains", dt=info["I"], values=[rv["ok"]])).get("ok", [None])[0] if "ok" in rv else None
            shown = [int(v["v"]) if v["t"] == "Integer" else driver.bits_f64(v["v"]) for v in vals]
            if inside is False:
                region = "sample-moment-vs-declared-range" if info["agg"] in ("Var", "Std") else "other"
                ck.violation("aggregate=%s/value-outside-image/%s" % (info["agg"], region), "%s(%s) = %s is outside the image %s declared for lists of %s with size %s" % (
                    info["agg"], shown, rv.get("s"), info["image_s"], json.dumps(info["et"]), list(info["sz"])), dict(agg=info["agg"], values=shown, image=info["I"]))
            elif "panic" in rv:
                ck.note("Aggregate %s value panics on %s (C18): %s" % (info["agg"], shown, rv["panic"]))
            else:
                ck.inconclusive("aggregate counterexample %s did not reproduce: %s(%s) = %s, image %s, contains=%s" % (r["id"], info["agg"], shown, rv.get("s") or rv, info["image_s"], inside))
            continue
        # A / B: replay with Expr::value and contains
        T, e = info["T"], info["e"]
        fields = []
        shown = {}
        for f, ft in T["fields"]:
            nn, ty, v = info["rowvals"][f]
            isnull = (nn != "false") and r["model"].get(nn) is True
            pv = kern.py_of_model(ty, r["model"][v])
            shown[f] = None if isnull else (pv.to_float() if ty == "f64" else pv)
            vj = kern.value_json(ty, pv)
            fields.append([f, ({"t": "Optional", "v": None if isnull else vj} if ft["t"] == "Optional" else vj)])
        row = {"t": "Struct", "fields": fields}
        rv = d.call(dict(op="expr_value", expr=e, v=row))
        if "panic" in rv:
            ck.note("Expr::value panics on %s for %s (C18 territory): %s" % (shown, gen.show(e), rv["panic"]))
            continue
        if info["I"] is None:
            if "ok" in rv:
                ck.violation("expr=super_image-fails-but-value-exists", "%s evaluates to %s on %s but range propagation fails on %s: %s" % (gen.show(e), rv.get("s"), shown, json.dumps(T)[:200], info["err"]), dict(expr=e, row=shown))
            else:
                ck.inconclusive("counterexample %s did not reproduce (value also fails)" % r["id"])
            continue
        inside = d.call(dict(op="contains", dt=info["I"], values=[rv["ok"]])).get("ok", [None])[0] if "ok" in rv else None
        null_result = "ok" in rv and rv["ok"].get("t") == "Optional" and rv["ok"].get("v") is None
        if "ok" in rv and rv["ok"].get("t") == "Optional" and rv["ok"].get("v") is not None and info["I"]["t"] != "Optional":
            # Some(v) against a non optional image: compare v itself (injection reading, see C11's known finding on `contains`)
            inside = d.call(dict(op="contains", dt=info["I"], values=[rv["ok"]["v"]])).get("ok", [None])[0]
        # a NULL result against a non optional image: the real `contains` converts the type to the value's variant; decide it here
        if "ok" in rv and rv["ok"].get("t") == "Optional" and rv["ok"].get("v") is None and info["I"]["t"] != "Optional":
            inside = False
        if inside is False:
            top = e["f"] if e["e"] == "Function" else e["e"]
            region = "null-result-for-non-optional-image" if (null_result and info["I"]["t"] != "Optional") else "value"
            key = "expr=value-outside-image/top=%s/%s" % (top, region)
            if info.get("beyond"):
                key = "expr=value-outside-image/int-to-float-rounding-beyond-2^53"
            else:
                vj = rv["ok"]["v"] if rv["ok"].get("t") == "Optional" and rv["ok"].get("v") is not None else rv["ok"]
                ib = info["I"]["of"] if info["I"]["t"] == "Optional" else info["I"]
                big = False
                try:
                    big = abs(driver.bits_f64(vj["v"])) >= float(P53) if vj.get("t") == "Float" else False
                except Exception:
                    big = False
                if ib["t"] == "Integer" and vj.get("t") == "Float" and big:
                    # Polymorphic::super_image picked the integer implementation (a float type with integral values converts to
                    # Integer), Polymorphic::value the float one (the value's variant): saturation / exactness differ
                    key = "expr=value-outside-image/integer-image-float-value"
            ck.violation(key, "%s = %s on the row %s, outside the propagated range %s of %s" % (gen.show(e), rv.get("s"), shown, info["image_s"], json.dumps(T)[:200]),
                         dict(expr=e, row=shown, image=info["I"], type=T))
        elif info.get("beyond"):
            ck.note("beyond 2^53 (outside the claim): %s on %s = %s, image %s: the encoder sees a rounding difference the real `contains` rounds away" % (gen.show(e), shown, rv.get("s"), info["image_s"]))
        else:
            vj_ = rv.get("ok") or {}
            vj_ = vj_["v"] if vj_.get("t") == "Optional" and vj_.get("v") is not None else vj_
            ib_ = info["I"]["of"] if info["I"]["t"] == "Optional" else info["I"]
            big_ = False
            try:
                big_ = vj_.get("t") == "Float" and abs(driver.bits_f64(vj_["v"])) >= float(P53)
            except Exception:
                pass
            if inside is True and ib_["t"] == "Integer" and big_:
                # a float result beyond 2^53 against an integer image: the real `contains` converts the float (rounding) and
                # accepts; the encoder compares exactly. No violation in the real code; the region is outside the claim.
                ck.note("float result beyond 2^53 against an integer image (outside the claim): %s on %s = %s, image %s: accepted by the real contains" % (gen.show(e), shown, rv.get("s"), info["image_s"]))
                continue
            ck.inconclusive("counterexample %s did not reproduce: %s on %s = %s, image %s (contains=%s)" % (r["id"], gen.show(e), shown, rv.get("s") or rv.get("err"), info["image_s"], inside))
    d.close()
    cov = dict(
        states=len(queries), transitions=len(queries), traces_validated_against_impl=replayed,
        function_grid_queries=nA, expression_tree_queries=nBq, hull_lemmas=sum(1 for q in queries if q["id"].startswith("C/")), aggregate_queries=sum(1 for q in queries if q["id"].startswith("D/")), transcendental_queries=nE,
        skipped=skipped,
        bounds=dict(points="every point of each argument box (64-bit bit-vectors, IEEE doubles, NULL flags)", types="boundary grid (enumerated)", expression_depth="<= 3", list_length="<= 3",
                    outside=["text, bytes, date/time, regex, hashing functions", "pow, and libm's own accuracy: sin / cos / exp / ln / log / sqrt are decided against a piecewise-monotone envelope (tolerance 1e-9) on a grid of concrete argument intervals (part E)",
                             "inputs on which a kernel panics (division by zero): excluded here and reported by C18", "float rounding inside aggregates (reals) and in part C"]),
        evaluations=len(queries), distinct_nontrivial=len(set(q["script"] for q in queries)),
    )
    return ck.finish(cov, assumptions=["dispatch / NULL model of Expr::value in lib/exprsem.py (null_mode 'value'); every counterexample is replayed with the real Expr::value and contains",
                                       "aggregate definitions re-stated from function.rs (loops are not translatable); replayed with the real Aggregate::value"])


if __name__ == "__main__":
    sys.exit(main())
