#!/usr/bin/env python3-vt
"""C03 - privacy loss is never under-reported; each DP aggregation fits its budget.

M  kernel lemmas from the MIR of dp_event::{gaussian_noise_multiplier, gaussian_noise} and DpAggregatesParameters::split
   (reals; ln uninterpreted and monotone, sqrt by its defining equation), for all epsilon > 0, 0 < delta < 1, n >= 1, C >= 0:
     L1  multiplier(eps, delta) * eps = sqrt(2 ln(1.25 / delta))            (the classical calibration)
     L2  split(n): eps_i * max(n, 1) = eps and delta_i * max(n, 1) = delta  (basic composition: the parts add up to the whole)
     L3  multiplier(eps, delta) <= multiplier(eps / n, delta / n)           (recording the coarser pair never under-reports)
     L4  gaussian_noise(eps, delta, C) = multiplier(eps, delta) * C         (sigma is the multiplier times the clip bound)
Glue (per query x DpParameters, concrete; reported as such): in the relation returned by the real compiler every noised
   column is traced back structurally to its clip literal C; with K noised columns of one aggregation sharing the budget
   (eps_a, delta_a) handed to it there must be a split delta_a = sum delta_i with sum_i sqrt(2 ln(1.25 / delta_i)) / (sigma_i / C_i) <= eps_a;
   the event must list one Gaussian entry per noised column with multiplier <= sigma_i / C_i, and a key release must be
   recorded with at least the (eps, delta) share that reproduces the tau literal.
"""
import os, sys, json, math, re, fractions
sys.path.insert(0, os.path.join(os.path.dirname(os.path.abspath(__file__)), "..", "lib"))
sys.path.insert(0, os.path.dirname(os.path.abspath(__file__)))
import mir, smt, kern, driver, symrel, pucat, dpir, gen
import c04
from common import Check, seed
from smt import land, lor, lnot

PID = "C03"

PROGRAMS = [
    "SELECT sum(amount) AS s FROM orders",
    "SELECT count(amount) AS n, sum(amount) AS s, avg(amount) AS m FROM orders",
    "SELECT kind, sum(amount) AS s, count(*) AS n FROM orders GROUP BY kind",
    "SELECT sum(amount) AS s, sum(DISTINCT amount) AS sd FROM orders",
    "SELECT count(DISTINCT kind) AS k, count(DISTINCT qty) AS q FROM orders",
    "SELECT sum(amount) AS s, count(DISTINCT kind) AS k, sum(DISTINCT bal) AS b FROM orders",
    "SELECT qty, sum(amount) AS s, count(amount) AS n FROM orders GROUP BY qty",
    "SELECT sum(age) AS s, avg(age) AS m FROM users",
    "SELECT sum(price) AS s FROM items",
    "SELECT u.city AS city, sum(o.amount) AS s FROM orders AS o JOIN users AS u ON o.user_id = u.id GROUP BY u.city",
    # several DP aggregations in one query (each is handed the whole aggregation budget; the event composes them)
    "WITH x AS (SELECT 1 + sum(amount) AS s FROM orders), y AS (SELECT 1 + sum(age) AS t FROM users) SELECT x.s AS a, y.t AS b FROM x CROSS JOIN y",
    "SELECT 1 + sum(amount) AS v FROM orders UNION SELECT 1 + sum(age) AS v FROM users",
    "WITH x AS (SELECT kind, 1 + sum(amount) AS s FROM orders GROUP BY kind), y AS (SELECT kind, 1 + sum(bal) AS t FROM orders GROUP BY kind) SELECT x.kind AS k, x.s AS a, y.t AS b FROM x JOIN y ON x.kind = y.kind",
    "WITH x AS (SELECT 1 + sum(amount) AS s, 1 + count(amount) AS n FROM orders), y AS (SELECT 1 + sum(age) AS t FROM users) SELECT x.s AS a, x.n AS n, y.t AS b FROM x CROSS JOIN y",
]
PARAMS = {
    "e1": dict(epsilon=1.0, delta=1e-3),
    "e05": dict(epsilon=0.5, delta=1e-5, tau_thresholding_share=0.3),
    "e02": dict(epsilon=0.2, delta=1e-4, tau_thresholding_share=0.7, privacy_unit_max_multiplicity_share=1.0),
}


def origin(node, col, depth=0):
    """the expression that defines column `col` of `node`, following plain column references through maps, reduces and joins"""
    if depth > 60:
        return None
    k = node["k"]
    if k == "Map":
        e = dict(node["projection"]).get(col)
        if e is None:
            return None
        if e["e"] == "Column":
            return origin(node["input"], e["path"][-1], depth + 1)
        return node, col, e
    if k == "Reduce":
        e = dict(node["aggregate"]).get(col)
        if e is None:
            return None
        return origin(node["input"], e["arg"]["path"][-1], depth + 1)
    if k == "Join":
        for name, (side, c) in node["field_inputs"]:
            if name == col:
                return origin(node["left"] if side == "_LEFT_" else node["right"], c, depth + 1)
    return None


def find_div_sqrt(e):
    """literal C in Divide(Sqrt(_), C)"""
    if isinstance(e, dict):
        if e.get("e") == "Function" and e["f"] == "Divide" and len(e["args"]) == 2:
            a, b = e["args"]
            if a.get("e") == "Function" and a["f"] == "Sqrt" and dpir.lit_float(b) is not None:
                return dpir.lit_float(b)
        for v in e.values():
            r = find_div_sqrt(v)
            if r is not None:
                return r
    elif isinstance(e, list):
        for v in e:
            r = find_div_sqrt(v)
            if r is not None:
                return r
    return None


def clip_literal(P, X):
    """trace the pre-noise term X (over the columns of P) back to the scale factor's clip literal"""
    cols = set()

    def walk(e):
        if isinstance(e, dict):
            if e.get("e") == "Column":
                cols.add(e["path"][-1])
            for v in e.values():
                walk(v)
        elif isinstance(e, list):
            for v in e:
                walk(v)
    walk(X)
    for c in cols:
        o = origin(P, c)
        if o is None:
            continue
        node, col, e = o   # e.g. _CLIPPED_x = Multiply(x, _SCALE_FACTOR_x)
        inner = set()
        def walk2(x):
            if isinstance(x, dict):
                if x.get("e") == "Column":
                    inner.add(x["path"][-1])
                for v in x.values():
                    walk2(v)
            elif isinstance(x, list):
                for v in x:
                    walk2(v)
        walk2(e)
        for ic in inner:
            o2 = origin(node["input"], ic)
            if o2 is not None:
                C = find_div_sqrt(o2[2])
                if C is not None:
                    return C
    return None


def min_epsilon(mults, delta):
    """the least total epsilon that basic composition can certify for Gaussian mechanisms with noise multipliers `mults`
    when the total delta may be split freely: minimise sum_i sqrt(2 ln(1.25 / d_i)) / m_i subject to sum_i d_i = delta.
    The objective is convex in each d_i (d_i << 1); KKT: all partial derivatives equal -> nested bisection. The even split
    and the split proportional to 1/m_i are tried as well; the minimum of all candidates is returned (an upper bound of the
    true minimum is enough: the check passes as soon as one admissible split fits the budget)."""
    K = len(mults)
    f = lambda d, m: math.sqrt(2 * math.log(1.25 / d)) / m
    cands = [[delta / K] * K]
    w = [1.0 / m for m in mults]
    cands.append([delta * x / sum(w) for x in w])
    # KKT: -f'(d) = 1 / (m d sqrt(2 ln(1.25/d))) = lam  for every i
    g = lambda d, m: 1.0 / (m * d * math.sqrt(2 * math.log(1.25 / d)))

    def d_of(lam, m):
        lo, hi = 1e-300, min(delta, 1.0)
        for _ in range(200):
            mid = math.sqrt(lo * hi)
            if g(mid, m) > lam:
                lo = mid
            else:
                hi = mid
        return hi
    lo, hi = 1e-30, 1e300
    for _ in range(300):
        lam = math.sqrt(lo * hi)
        tot = sum(d_of(lam, m) for m in mults)
        if tot > delta:
            lo = lam
        else:
            hi = lam
    ds = [d_of(hi, m) for m in mults]
    if sum(ds) <= delta * (1 + 1e-9) and all(0 < d < 1 for d in ds):
        cands.append(ds)
    return min(sum(f(d, m) for d, m in zip(c, mults)) for c in cands)


def main():
    tier = sys.argv[1] if len(sys.argv) > 1 else "quick"
    ck = Check(PID, tier, "model_checking")
    tq = 30.0 if tier == "quick" else 120.0
    K = 2
    driver.build()
    path, _ = mir.dump_mir()
    fns = mir.parse_mir(path)
    queries, meta = [], {}
    # ------------------------------------------------------------------ M lemmas
    def fn_named(pat):
        r = [n for n in fns if re.fullmatch(pat, n)]
        return r[0] if r else None
    f_mult = fn_named(r"(?:differential_privacy::dp_event::)?gaussian_noise_multiplier")
    f_noise = fn_named(r"(?:differential_privacy::dp_event::)?gaussian_noise")
    f_split = fn_named(r"aggregates::<impl at src/differential_privacy/aggregates\.rs:\d+:\d+: \d+:\d+>::split")
    lemma_note = {}
    if not (f_mult and f_noise and f_split):
        ck.inconclusive("budget kernels not found in the MIR dump: %s" % dict(mult=f_mult, noise=f_noise, split=f_split))
    else:
        try:
            FMAX = smt.real_lit(fractions.Fraction(1.7976931348623157e308))
            def inst(fname, args, enc):
                tr = mir.Translator(fns, enc)
                return tr.translate_fn(fname, [mir.V("f64", a) if isinstance(a, str) else a for a in args])
            enc = mir.Enc("math")
            decl = ["(declare-const e Real)", "(declare-const d Real)", "(declare-const n Int)", "(declare-const C Real)"]
            pre = ["(> e 0.0)", "(> d 0.0)", "(< d 1.0)", "(>= n 1)", "(>= C 0.0)"]
            m1, p1 = inst(f_mult, ["e", "d"], enc)
            m2, p2 = inst(f_mult, ["(/ e (to_real n))", "(/ d (to_real n))"], enc)
            g, p3 = inst(f_noise, ["e", "d", "C"], enc)
            # ln axioms: monotone, and ln(x) >= 0 for x >= 1 (so that the square roots are defined); sqrt equations come from the callee model
            ln = "uf_ln"
            ax = ["(=> (<= (/ 1.25 d) (/ 1.25 (/ d (to_real n)))) (<= (%s (/ 1.25 d)) (%s (/ 1.25 (/ d (to_real n))))))" % (ln, ln),
                  "(>= (%s (/ 1.25 d)) 0.0)" % ln, "(>= (%s (/ 1.25 (/ d (to_real n)))) 0.0)" % ln]
            # results below the clamp (finite): the clamp to [0, f64::MAX] is then the identity
            noclamp = ["(<= %s %s)" % (m1.t, FMAX), "(<= %s %s)" % (m2.t, FMAX)]
            base = decl + enc.decls
            common = pre + enc.side + ax
            # an independent square root of the classical quantity
            spec = ["(declare-const S Real)", "(assert (>= S 0.0))", "(assert (= (* S S) (* 2.0 (%s (/ 1.25 d)))))" % ln]
            def q(qid, extra_decl, asserts):
                queries.append(dict(id=qid, script="\n".join(base + extra_decl + ["(assert %s)" % a for a in common + asserts]), values=["e", "d", "n", "C"], solvers=["cvc5", "z3new", "z3"]))
                meta[qid] = dict(what="lemma", name=qid)
            q("L1/classical-calibration", spec, ["(< (* %s e) %s)" % (m1.t, FMAX), "(not (= (* %s e) S))" % m1.t, "(< (/ S e) %s)" % FMAX])
            q("L3/recorded-multiplier-not-larger", [], noclamp + ["(> %s %s)" % (m1.t, m2.t), "(< (* %s 1.0) %s)" % (m2.t, FMAX)])
            q("L4/sigma-is-multiplier-times-C", [], ["(< %s %s)" % (g.t, FMAX), "(< (* %s C) %s)" % (m1.t, FMAX), "(not (= %s (* %s C)))" % (g.t, m1.t)])
            q("W/multiplier-positive", [], ["(> %s 0.0)" % m1.t])
            lemma_note["multiplier_term"] = m1.t[:200]
            # L2 split
            enc2 = mir.Enc("math")
            tr = mir.Translator(fns, enc2)
            st_ = mir.Tup([mir.V("f64", "e"), mir.V("f64", "d"), mir.V("usize", "sz"), mir.V("bool", "uq"), mir.V("f64", "mm"), mir.V("f64", "ms")])
            val, ps = tr.translate_fn(f_split, [st_, mir.V("usize", "k")])
            decl2 = ["(declare-const e Real)", "(declare-const d Real)", "(declare-const sz Int)", "(declare-const uq Bool)", "(declare-const mm Real)", "(declare-const ms Real)", "(declare-const k Int)"]
            pre2 = ["(> e 0.0)", "(> d 0.0)", "(>= k 0)", "(<= k 1000000)", "(>= sz 0)"] + enc2.side
            parts = "(to_real (ite (>= k 1) k 1))"
            bad = lor(["(not (= (* %s %s) e))" % (val.items[0].t, parts), "(not (= (* %s %s) d))" % (val.items[1].t, parts), ps])
            queries.append(dict(id="L2/split-parts-add-up", script="\n".join(decl2 + enc2.decls + ["(assert %s)" % a for a in pre2 + [bad]]), values=["e", "d", "k"], solvers=["cvc5", "z3new", "z3"]))
            meta["L2/split-parts-add-up"] = dict(what="lemma", name="L2/split-parts-add-up")
        except mir.NotTranslatable as ex:
            ck.inconclusive("a budget kernel is no longer translatable: %s" % ex)

    # ------------------------------------------------------------------ glue on compiled queries
    tabs = pucat.tables(K)
    pus = pucat.pu_defs()
    jobs, keys = [], []
    import random as _random
    rnd = _random.Random(seed() * 104729 + 3)
    extra, seen = [], set(PROGRAMS)
    while len(extra) < (8 if tier == "quick" else 80):
        q = pucat.random_dp_program(rnd)[0]
        if q not in seen:
            seen.add(q)
            extra.append(q)
    for sql in list(PROGRAMS) + extra:
        for prm in PARAMS:
            jobs.append(dict(op="rewrite", mode="dp", tables=tabs, privacy_unit=pus["chain"], dp=PARAMS[prm], synthetic=False, sql=sql))
            keys.append((sql, prm))
    answers = driver.parallel_batch(jobs, workers=12, timeout=180.0)
    d = driver.Driver(60.0)
    glue = []
    n_prog = 0
    for (sql, prm), ans in zip(keys, answers):
        if "ok" not in ans:
            if "panic" in ans:
                ck.note("rewrite_with_differential_privacy panics on `%s` (%s): %s" % (sql, prm, ans["panic"]))
            continue
        n_prog += 1
        P_ = PARAMS[prm]
        rel, ev = ans["ok"]["rewritten"], ans["ok"]["dp_event"]
        ms = dpir.gaussian_multipliers(ev)
        eds = dpir.epsilon_deltas(ev)
        share = P_.get("tau_thresholding_share", 0.5)
        nodes = c04.find_nodes(rel)
        release_noise_node = nodes["noise"][0]["name"] if nodes["noise"] else None
        cols = []
        for nmap, cs in dpir.noise_maps(rel):
            if nmap["name"] == release_noise_node:
                continue   # the noised count of the key release is accounted by the EpsilonDelta entry
            for name, X, sig, e in cs:
                if X is None and e.get("e") == "Function" and e["f"] == "Random":
                    continue   # a bare random rank (contribution cap of the key release), no data in it
                if X is None:
                    ck.inconclusive("`%s` (%s): noise outside the X + sigma * noise pattern in %s" % (sql, prm, nmap["name"]))
                    continue
                C = clip_literal(nmap["input"], X)
                cols.append(dict(node=nmap["name"], col=name, sigma=sig, C=C))
        live = [c for c in cols if c["sigma"] and c["sigma"] > 0]
        eps_a = P_["epsilon"] * ((1 - share) if eds else 1.0)
        del_a = P_["delta"] * ((1 - share) if eds else 1.0)
        rec = dict(sql=sql, params=prm, noised_columns=cols, gaussian_entries=ms, key_release_entries=eds, aggregation_budget=(eps_a, del_a))
        if any(c["C"] is None for c in live):
            ck.inconclusive("`%s` (%s): the clip literal of a noised column could not be traced: %s" % (sql, prm, [c for c in live if c["C"] is None]))
            glue.append(rec)
            continue
        # one Gaussian entry per noised column, none missing
        if len(ms) < len(live):
            ck.violation("event=gaussian-entry-missing", "`%s` (%s): %d columns are noised but the event lists %d Gaussian mechanisms" % (sql, prm, len(live), len(ms)), rec)
        # recorded multipliers vs applied sigma / C: a matching must exist (sort both: the smallest recorded against the smallest applied)
        applied = sorted(c["sigma"] / c["C"] for c in live if c["C"] > 0)
        for mr, ma in zip(sorted(ms), applied):
            if mr > ma * (1 + 1e-9):
                ck.violation("event=recorded-multiplier-larger-than-applied", "`%s` (%s): the event records noise multiplier %g, the query applies sigma / C = %g" % (sql, prm, mr, ma), rec)
                break
        # applied noise fits the budget handed to ONE aggregation (classical calibration, basic composition, delta split evenly):
        # noised columns are attributed to the aggregation (Reduce of the original relation) whose aggregate argument they are
        # named after; a column that cannot be attributed unambiguously is judged on its own (never an alarm from the grouping)
        oreds = [n for n in symrel.inner_nodes(ans["ok"]["original"]) if n["k"] == "Reduce"]
        groups = {}
        for c in live:
            m_ = re.fullmatch(r"_(SUM|COUNT)_(.+)", c["col"])
            cands = []
            if m_:
                for n in oreds:
                    for _, e in n["aggregate"]:
                        kinds = {"Sum": "SUM", "SumDistinct": "SUM", "Count": "COUNT", "CountDistinct": "COUNT"}
                        want = {"SUM", "COUNT"} if e["a"] in ("Mean", "MeanDistinct", "Var", "Std") else {kinds.get(e["a"])}
                        if e["arg"].get("e") == "Column" and e["arg"]["path"][-1] == m_.group(2) and m_.group(1) in want and n["name"] not in cands:
                            cands.append(n["name"])
            gid = cands[0] if len(cands) == 1 else "own:%s/%s" % (c["node"], c["col"])
            groups.setdefault(gid, []).append(c)
        rec["aggregations"] = {g: [c["col"] for c in cs] for g, cs in groups.items()}
        spent = {}
        for g, cs in groups.items():
            Kc = len(cs)
            mults_ = [c["sigma"] / c["C"] for c in cs if c["C"] > 0]
            tot = min_epsilon(mults_, del_a) if len(mults_) == Kc else float("inf")
            spent[g] = tot
            if tot > eps_a * (1 + 1e-6):
                ck.violation("budget=applied-noise-exceeds-aggregation-budget", "`%s` (%s): the %d noised columns of aggregation %s carry sigma/C = %s; under the best split of delta they spend epsilon = %g, the aggregation was handed %g" % (
                    sql, prm, Kc, g, [round(c["sigma"] / c["C"], 4) for c in cs], tot, eps_a), rec)
        rec["epsilon_spent_by_applied_noise"] = spent
        # key release: recorded with at least what reproduces the tau literal
        if nodes["release"] is not None:
            tau_lit = nodes["release"][3]
            Cu = int(P_.get("max_privacy_unit_groups", 5))
            if not eds:
                ck.violation("event=key-release-entry-missing", "`%s` (%s): keys are released by thresholding (tau literal %g) but the event has no EpsilonDelta entry" % (sql, prm, tau_lit), rec)
            else:
                kj = d.call(dict(op="dp_kernels", epsilon=eds[0][0], delta=eds[0][1], sensitivity=math.sqrt(Cu), groups=float(Cu))).get("ok", {})
                rec["tau_literal"], rec["tau_from_recorded_entry"] = tau_lit, kj.get("gaussian_tau")
                if kj and kj["gaussian_tau"] > tau_lit * (1 + 1e-9):
                    ck.violation("event=key-release-under-reported", "`%s` (%s): the tau literal %g corresponds to a larger (eps, delta) than the recorded %s (which would need tau = %g)" % (sql, prm, tau_lit, eds[0], kj["gaussian_tau"]), rec)
                if eds[0][0] + eps_a > P_["epsilon"] * (1 + 1e-9) or eds[0][1] + del_a > P_["delta"] * (1 + 1e-9):
                    ck.violation("budget=shares-exceed-total", "`%s` (%s): key release %s plus aggregation (%g, %g) exceed the total (%g, %g)" % (sql, prm, eds[0], eps_a, del_a, P_["epsilon"], P_["delta"]), rec)
        glue.append(rec)
    d.close()
    results = smt.solve_all(queries, tq, workers=8)
    ck.count(results)
    for r in results:
        info = meta[r["id"]]
        if r["id"].startswith("W/"):
            if r["status"] != "sat":
                ck.inconclusive("vacuity witness %s is %s" % (r["id"], r["status"]))
            continue
        if r["status"] == "sat":
            mv = {k: (float(v) if not isinstance(v, tuple) else str(v)) for k, v in r["model"].items()}
            dd = driver.Driver(30.0)
            kj = dd.call(dict(op="dp_kernels", epsilon=float(mv.get("e", 1.0)), delta=float(mv.get("d", 0.001)), sensitivity=float(mv.get("C", 1.0)))) if "e" in mv else {}
            if r["id"].startswith("L2/"):
                kj = dd.call(dict(op="dp_split", epsilon=float(mv["e"]), delta=float(mv["d"]), n=int(mv["k"])))
                got = kj.get("ok")
                if got is not None:
                    kk = max(int(mv["k"]), 1)
                    if abs(got["epsilon"] * kk - mv["e"]) <= 1e-9 * abs(mv["e"]) and abs(got["delta"] * kk - mv["d"]) <= 1e-9 * abs(mv["d"]):
                        dd.close()
                        ck.inconclusive("lemma L2 counterexample %s does not reproduce on the real split (%s): encoding defect" % (mv, got))
                        continue
            dd.close()
            ck.violation("kernel=%s" % r["id"], "budget lemma %s fails for %s (real kernels there: %s)" % (r["id"], mv, json.dumps(kj.get("ok"))), dict(lemma=r["id"], model=mv))
    ck.samples = glue[:6]
    cov = dict(
        states=len(queries) + len(glue), transitions=len(queries) + len(glue), traces_validated_against_impl=len(glue),
        lemmas=[q["id"] for q in queries], lemma_notes=lemma_note, glue_programs=n_prog,
        functions_encoded=[f_mult, f_noise, f_split],
        bounds=dict(lemmas="all epsilon > 0, 0 < delta < 1, n >= 1, C >= 0 over the reals (results below the f64::MAX clamp)", glue="%d compiled (query, parameters) pairs: concrete, enumerated" % len(glue),
                    outside=["optimal accounting (only 'not under-reported' is claimed)", "epsilon > 1 where the classical calibration is not valid (the library only warns)", "float rounding"]),
        evaluations=len(queries) + len(glue), distinct_nontrivial=len(set(q["script"] for q in queries)) + len(glue),
    )
    return ck.finish(cov, assumptions=["ln is uninterpreted: monotone and non-negative on [1, inf) (instantiated where used); sqrt by s >= 0, s*s = x",
                                       "the glue is concrete: the clip literal is traced structurally (column lineage to Divide(Sqrt(_), C)); delta of an aggregation is taken as split evenly among its noised columns"])


if __name__ == "__main__":
    sys.exit(main())
