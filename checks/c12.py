#!/usr/bin/env python3-vt
"""C12 - type conversions are value-preserving injections within the converted type.

Part A (kernel lemmas): every scalar `Base<A,B>::value` closure of injection.rs is translated from the MIR of the
  current tree (engine M, bit-vectors / Float64, full width) and the solver decides injectivity, refusal,
  round-trip and monotonicity (the fact `intervals_image` relies on: image of [lo,hi] = hull of f(lo), f(hi)).
Part B (grid x symbolic value): source types on a boundary grid are pushed through the real
  `into_data_type` (driver); the solver looks for a value v in A whose kernel image is outside the type the real
  code returned, or that is refused although the type conversion was accepted.
Part T: Integer -> Text at type level (string theory, decimal spelling against the real converted type).
Part D (chrono model, lib/chrono.py): the Date <-> DateTime kernels are translated from their MIR with dates / datetimes as
  integer tuples and the chrono calls they make as callee models (injectivity, refusal of lossy conversions, round trip,
  no panic); the X -> Text kernels of Date / Time / DateTime are read from the MIR as a formatter (Display or an strftime
  string) and encoded as fixed-position character tuples: the solver decides injectivity and order preservation (which the
  converted type, built from the images of interval end points, relies on) over every calendar-valid value of the years
  1..9999; the formatter model is validated against the real conversions on concrete values at every run.
Counterexamples are replayed through the real `inject_into(..).value(..)` before anything is reported.
"""
import os, sys, re, json, time, itertools
sys.path.insert(0, os.path.join(os.path.dirname(os.path.abspath(__file__)), "..", "lib"))
import mir, smt, kern, driver
from common import Check, seed
from smt import land, lor, lnot, fp_lit, bv64
from kern import I64_MIN, I64_MAX

PID = "C12"
P53 = 1 << 53


def find_injection_kernels(fns, src=None):
    import paths
    src = src or (paths.REPO + "/src/data_type/injection.rs")
    lines = open(src).read().split("\n")
    out = {}
    for name in fns:
        m = re.match(r"injection::<impl at src/data_type/injection\.rs:(\d+):\d+: \d+:\d+>::value::\{closure#0\}$", name)
        if m:
            l = lines[int(m.group(1)) - 1]
            mm = re.match(r"impl Injection for Base<(\w+), (\w+)>", l)
            if mm:
                out[(mm.group(1), mm.group(2))] = name
    return out


def opt_parts(val):
    """Option value -> (defined term, payload value)"""
    if isinstance(val, mir.En):
        some = val.variants.get(1)
        return "(= %s 1)" % val.disc, (some[0] if some else None)
    return "true", val


def main():
    tier = sys.argv[1] if len(sys.argv) > 1 else "quick"
    ck = Check(PID, tier, "model_checking")
    tq = 20.0 if tier == "quick" else 120.0
    bsecs = driver.build()
    path, msecs = mir.dump_mir()
    fns = mir.parse_mir(path)
    found = find_injection_kernels(fns)
    ck.note("MIR dump %.1fs, driver build %.1fs; %d injection value closures found" % (msecs, bsecs, len(found)))
    K = {}
    not_translatable = {}
    for pair, name in sorted(found.items()):
        try:
            K[pair] = kern.Kernel(fns, name, "bv")
        except mir.NotTranslatable as ex:
            not_translatable["%s->%s" % pair] = str(ex)
    need = [("Boolean", "Integer"), ("Integer", "Boolean"), ("Integer", "Float"), ("Float", "Integer")]
    for p in need:
        if p not in K:
            ck.inconclusive("kernel %s->%s not found/translatable in the current tree: %s" % (p[0], p[1], not_translatable.get("%s->%s" % p, "absent")))
    if ck.inconcl:
        return ck.finish(dict(evaluations=0, distinct_nontrivial=0, explanation="kernels missing"))

    queries = []
    meta = {}

    def add(qid, decls, asserts, values, info):
        script = "\n".join(decls + ["(assert %s)" % a for a in asserts])
        queries.append(dict(id=qid, script=script, values=values))
        meta[qid] = info

    SORT = {"bool": "Bool", "i64": "(_ BitVec 64)", "f64": "(_ FloatingPoint 11 53)"}

    def decl(n, ty):
        return "(declare-const %s %s)" % (n, SORT[ty])

    def neq(ty, a, b):
        return "(not (fp.eq %s %s))" % (a, b) if ty == "f64" else "(not (= %s %s))" % (a, b)

    def eq(ty, a, b):
        return "(fp.eq %s %s)" % (a, b) if ty == "f64" else "(= %s %s)" % (a, b)

    def le(ty, a, b):
        return {"f64": "(fp.leq %s %s)", "i64": "(bvsle %s %s)", "bool": "(or (not %s) %s)"}[ty] % (a, b)

    TY = {"Boolean": "bool", "Integer": "i64", "Float": "f64"}
    absle = lambda x, b: "(and (bvsle %s %s) (bvsle %s %s))" % (bv64(-b), x, x, bv64(b))

    # ------------------------------------------------------------------ Part A: kernel lemmas
    for (A, B), k in K.items():
        ta, tb = TY[A], TY[B]
        pair = "%s->%s" % (A, B)
        ix, iy = k.inst(["x"]), k.inst(["y"])
        dx, vx = opt_parts(ix["val"])
        dy, vy = opt_parts(iy["val"])
        base = [decl("x", ta), decl("y", ta)] + ix["decls"] + iy["decls"]
        # no panic on any input
        add("A/%s/no-panic" % pair, base, [ix["panic"]], ["x"], dict(kind="panic", pair=(A, B)))
        # injectivity on the defined part
        inj = [neq(ta, "x", "y"), dx, dy, eq(tb, vx.t, vy.t)]
        if ta == "f64":
            inj += ["(not (fp.isNaN x))", "(not (fp.isNaN y))"]
        add("A/%s/injective" % pair, base, inj, ["x", "y"], dict(kind="inj", pair=(A, B)))
        if (A, B) == ("Integer", "Float"):
            add("A/%s/injective-excl-known" % pair, base, inj + [absle("x", P53), absle("y", P53)], ["x", "y"], dict(kind="inj", pair=(A, B)))
        # monotone on the defined part (what intervals_image relies on)
        mono = [le(ta, "x", "y"), dx, dy, lnot(le(tb, vx.t, vy.t))]
        if ta == "f64":
            mono += ["(not (fp.isNaN x))", "(not (fp.isNaN y))"]
        add("A/%s/monotone" % pair, base, mono, ["x", "y"], dict(kind="mono", pair=(A, B)))
        # vacuity witness: the kernel is defined somewhere and takes two different values
        add("W/%s/witness" % pair, base, [dx, dy, neq(tb, vx.t, vy.t)], ["x", "y"], dict(kind="witness", pair=(A, B)))
        # round trip where the reverse kernel exists
        if (B, A) in K:
            r = K[(B, A)].inst([vx.t])
            dr, vr = opt_parts(r["val"])
            rt = [dx, lor([lnot(dr), neq(ta, vr.t, "x")])]
            if ta == "f64":
                rt += ["(not (fp.isNaN x))"]
            add("A/%s/round-trip" % pair, base + r["decls"], rt, ["x"], dict(kind="rt", pair=(A, B)))
            if (A, B) == ("Integer", "Float"):
                add("A/%s/round-trip-excl-known" % pair, base + r["decls"], rt + [absle("x", P53)], ["x"], dict(kind="rt", pair=(A, B)))
    # refusal / acceptance specifications (independent of the code's own guard)
    k = K[("Integer", "Boolean")]
    i = k.inst(["x"])
    d, v = opt_parts(i["val"])
    in01 = "(or (= x %s) (= x %s))" % (bv64(0), bv64(1))
    add("A/Integer->Boolean/refuses-outside-01", [decl("x", "i64")] + i["decls"], [lnot(in01), d], ["x"], dict(kind="refusal", pair=("Integer", "Boolean")))
    add("A/Integer->Boolean/accepts-01", [decl("x", "i64")] + i["decls"], [in01, lor([lnot(d), "(not (= %s (= x %s)))" % (v.t, bv64(1))])], ["x"], dict(kind="accept", pair=("Integer", "Boolean")))
    k = K[("Float", "Integer")]
    i = k.inst(["x"])
    d, v = opt_parts(i["val"])
    two63 = fp_lit(float(1 << 63))
    integral = "(fp.eq (fp.roundToIntegral RTZ x) x)"
    fits = "(and (fp.geq x %s) (fp.lt x %s))" % (fp_lit(-float(1 << 63)), two63)
    lossless = land(["(not (fp.isNaN x))", "(not (fp.isInfinite x))", integral, fits])
    add("A/Float->Integer/refuses-lossy", [decl("x", "f64")] + i["decls"], [lnot(lossless), d], ["x"], dict(kind="refusal", pair=("Float", "Integer")))
    add("A/Float->Integer/refuses-lossy-excl-known", [decl("x", "f64")] + i["decls"], [lnot(lossless), d, "(not (fp.eq x %s))" % two63], ["x"], dict(kind="refusal", pair=("Float", "Integer")))
    add("A/Float->Integer/accepts-lossless", [decl("x", "f64")] + i["decls"],
        [lossless, lor([lnot(d), "(not (= %s ((_ fp.to_sbv 64) RTZ x)))" % v.t])], ["x"], dict(kind="accept", pair=("Float", "Integer")))
    k = K[("Integer", "Float")]
    i = k.inst(["x"])
    add("A/Integer->Float/finite", [decl("x", "i64")] + i["decls"], ["(or (fp.isNaN %s) (fp.isInfinite %s))" % (i["val"].t, i["val"].t)], ["x"], dict(kind="finite", pair=("Integer", "Float")))
    k = K[("Boolean", "Integer")]
    i = k.inst(["x"])
    add("A/Boolean->Integer/is-0-1", [decl("x", "bool")] + i["decls"], ["(not (= %s (ite x %s %s)))" % (i["val"].t, bv64(1), bv64(0))], ["x"], dict(kind="spec", pair=("Boolean", "Integer")))

    # ------------------------------------------------------------------ Part B: grid through the real wrappers
    def ref_value(A, B, x):
        """reference semantics of converting scalar x of variant A to variant B, composed from the M kernels
        (the composition Boolean->Float = Boolean->Integer->Float is what Base<Boolean,DataType> builds)"""
        if A == B:
            return [], "true", mir.V(TY[A], x)
        if (A, B) in K:
            i = K[(A, B)].inst([x])
            d, v = opt_parts(i["val"])
            return i["decls"], d, v
        if (A, B) == ("Boolean", "Float"):
            i1 = K[("Boolean", "Integer")].inst([x])
            i2 = K[("Integer", "Float")].inst([i1["val"].t])
            return i1["decls"] + i2["decls"], "true", i2["val"]
        return None

    big = [I64_MIN, I64_MIN + 1, -P53 - 1, -P53, -129, -128, -2, -1, 0, 1, 2, 127, 128, 129, P53, P53 + 1, I64_MAX - 1, I64_MAX]
    if tier == "quick":
        big = [I64_MIN, -P53 - 1, -128, -1, 0, 1, 2, 128, P53 + 1, I64_MAX]
    int_types = []
    for a, b in itertools.combinations_with_replacement(big, 2):
        # (wide ranges beyond the capacity used to hang in into_values - fixed, see known_findings.txt / C18 - and are part of the grid)
        int_types.append(driver.t_int((a, b)))
    int_types += [driver.t_int((0, 1), (5, 9)), driver.t_int((-3, -3), (4, 4), (P53 + 1, P53 + 1)), driver.t_int((I64_MIN, -1), (1, I64_MAX)),
                  driver.t_int((0, 0), (1, 1)), driver.t_int((-1, 0)), driver.t_int((1, 2))]
    fvals = [-float(1 << 63), -float(P53) - 2, -1.5, -1.0, -0.0, 0.0, 0.5, 1.0, 2.0, float(P53), float(P53) + 2, float(1 << 63), 1e19, -1e19, 1.7976931348623157e308, float("inf")]
    float_types = [driver.t_float((x, x)) for x in fvals]
    float_types += [driver.t_float((0.0, 0.0), (1.0, 1.0)), driver.t_float((-1.0, -1.0), (float(P53) + 2, float(P53) + 2)), driver.t_float((0.0, 1.0)),
                    driver.t_float((-1.5, 2.5)), driver.t_float((float(1 << 62), float(1 << 63))), driver.t_float((1.0, 1.0), (2.0, 2.0), (3.0, 3.0)),
                    driver.t_float((float(1 << 63), float(1 << 63)), (0.0, 0.0))]
    bool_types = [driver.t_bool((False, False)), driver.t_bool((True, True)), driver.t_bool((False, True))]
    full = {"Integer": driver.t_int((I64_MIN, I64_MAX)), "Float": driver.t_float((float("-inf"), float("inf"))), "Boolean": driver.t_bool((False, True))}
    full["Float"] = driver.t_float((-1.7976931348623157e308, 1.7976931348623157e308))
    DIRECT = {("Integer", "Boolean"), ("Float", "Integer"), ("Integer", "Float"), ("Boolean", "Integer")}
    opof = lambda A, B, via: "inject_direct" if via == "direct" else "inject"
    grid = []
    for src_list, A in ((int_types, "Integer"), (float_types, "Float"), (bool_types, "Boolean")):
        for Bn in ("Integer", "Float", "Boolean"):
            for a in src_list:
                grid.append((A, Bn, a, "public"))
                if (A, Bn) in DIRECT:
                    grid.append((A, Bn, a, "direct"))
    jobs = [dict(id=i, op=opof(A, Bn, via), **{"from": a, "to": full[Bn]}) for i, (A, Bn, a, via) in enumerate(grid)]
    answers = driver.parallel_batch(jobs, workers=12, timeout=15.0)
    n_ok = n_err = n_hang = 0
    for gi, ((A, Bn, a, via), ans) in enumerate(zip(grid, answers)):
        if "timeout" in ans or "crash" in ans:
            n_hang += 1
            ck.note("driver hang/crash on inject %s -> %s (not a C12 matter; see C18)" % (json.dumps(a), Bn))
            continue
        img = ans.get("image", {})
        if "ok" not in img:
            n_err += 1
            continue
        n_ok += 1
        I = img["ok"]
        if I["t"] != Bn:
            ck.note("image variant %s for target %s" % (I["t"], Bn))
            continue
        rv = ref_value(A, Bn, "v")
        if rv is None:
            ck.inconclusive("real code converts %s -> %s but no reference semantics is available (grid %s)" % (A, Bn, json.dumps(a)))
            continue
        decls, d, val = rv
        ta = TY[A]
        inA = kern.member(a, "v")
        extra = ["(not (fp.isNaN v))"] if ta == "f64" else []
        add("B/%d/%s/%s->%s/image-contains" % (gi, via, A, Bn), [decl("v", ta)] + decls, [inA, d, lnot(kern.member(I, val.t))] + extra, ["v"],
            dict(kind="image", pair=(A, Bn), src=a, image=I, via=via))
        add("B/%d/%s/%s->%s/accepted-type-refused-value" % (gi, via, A, Bn), [decl("v", ta)] + decls, [inA, lnot(d)] + extra, ["v"],
            dict(kind="refused", pair=(A, Bn), src=a, image=I, via=via))
        ck.sample(dict(part="B", source=ans.get("image", {}).get("s") and json.dumps(a), target=Bn, image=img.get("s")))
    ck.note("grid: %d (source type, target variant) points; real conversion accepted %d, refused %d, hang %d" % (len(grid), n_ok, n_err, n_hang))
    # concrete end-to-end validation of the public value path: the end points of every accepted source type are converted by the real
    # injection; each must be accepted and lie in the converted type (this also validates the encoder against the public entry point)
    ep_jobs, ep_meta = [], []
    for (A, Bn, a, via), ans in zip(grid, answers):
        if "ok" not in ans.get("image", {}):
            continue
        ta = TY[A]
        pts = []
        for lo, hi in a["iv"]:
            for x in (lo, hi):
                pv = int(x) if ta == "i64" else (kern.bits_to_float(x) if ta == "f64" else x)
                if pv not in pts:
                    pts.append(pv)
        pts = pts[:4]
        ep_jobs.append(dict(op=opof(A, Bn, via), **{"from": a, "to": full[Bn]}, values=[kern.value_json(ta, p) for p in pts]))
        ep_meta.append((A, Bn, a, via, pts, ans["image"]))
    ep_ans = driver.parallel_batch(ep_jobs, workers=12, timeout=20.0)
    n_ep = 0
    dd = driver.Driver(15.0)
    for (A, Bn, a, via, pts, img), ans in zip(ep_meta, ep_ans):
        for p, rv in zip(pts, ans.get("values") or []):
            n_ep += 1
            if "ok" not in rv:
                ck.violation("injection=%s->%s/value-refused-in-accepted-type/%s" % (A, Bn, via), "type %s converts to %s (%s entry point) but its value %r is refused: %s" % (
                    json.dumps(a), img.get("s"), via, p, (rv.get("err") or rv.get("panic") or "").strip()), dict(source=a, value=repr(p), answer=rv))
            else:
                c = dd.call(dict(op="contains", dt=img["ok"], values=[rv["ok"]]))
                if c.get("ok") == [False]:
                    ck.violation("injection=%s->%s/value-outside-converted-type/%s" % (A, Bn, via), "type %s converts to %s but its value %r converts to %s" % (json.dumps(a), img.get("s"), p, rv.get("s")), dict(source=a, value=repr(p)))
    dd.close()
    ck.note("public value path: %d end points of accepted source types converted by the real injection and checked against the converted type" % n_ep)

    # ------------------------------------------------------------------ translator validation (concrete, both sides)
    tv_jobs, tv_q = [], []
    probes = {"Integer": [I64_MIN, I64_MIN + 1, -P53 - 1, -P53, -2, -1, 0, 1, 2, 3, P53, P53 + 1, I64_MAX - 1, I64_MAX],
              "Float": [-float(1 << 63), -float(P53) - 2, -1.5, -1.0, -0.5, -0.0, 0.0, 0.5, 1.0, 1.5, float(P53), float(1 << 63), 1e19, 1e300],
              "Boolean": [False, True]}
    for (A, B) in [("Boolean", "Integer"), ("Boolean", "Float"), ("Integer", "Float"), ("Float", "Integer"), ("Integer", "Boolean")]:
        for pv in probes[A]:
            ta = TY[A]
            x = kern.lit(ta, pv)
            decls, d, val = ref_value(A, B, x)
            qid = "TV/%s->%s/%r" % (A, B, pv)
            tv_q.append(dict(id=qid, script="\n".join(decls + ["(declare-const d Bool)", "(declare-const r %s)" % SORT[TY[B]],
                                                              "(assert (= d %s))" % d] + (["(assert (=> d (= r %s)))" % val.t] if val is not None else [])), values=["d", "r"]))
            src = {"Integer": lambda: driver.t_int((pv, pv)), "Float": lambda: driver.t_float((pv, pv)), "Boolean": lambda: driver.t_bool((pv, pv))}[A]()
            tv_jobs.append(dict(op="inject_direct" if (A, B) in DIRECT else "inject", **{"from": src, "to": full[B]}, values=[kern.value_json(ta, pv)], _q=qid, _pair=(A, B), _pv=pv))
    tv_ans = driver.parallel_batch([{k: v for k, v in j.items() if not k.startswith("_")} for j in tv_jobs], workers=8, timeout=15.0)
    tv_res = {r["id"]: r for r in smt.solve_all(tv_q, 30.0, workers=8)}
    tv_n = tv_bad = tv_skipped = 0
    for j, a in zip(tv_jobs, tv_ans):
        r = tv_res[j["_q"]]
        A, B = j["_pair"]
        if r["status"] != "sat":
            ck.inconclusive("translator validation query %s not sat (%s)" % (j["_q"], r["status"]))
            continue
        real = (a.get("values") or [{}])[0]
        if "image" in a and "err" in a["image"] and "no injection" in str(real.get("err", "")) and (A, B) == ("Integer", "Boolean"):
            tv_skipped += 1  # Base<Integer,DataType> does not route to Base<Integer,Boolean>; kernel unreachable this way
            continue
        sd = bool(r["model"]["d"])
        if "ok" in real:
            ty, rv = kern.json_value(real["ok"])
            sv = kern.py_of_model(TY[B], r["model"]["r"])
            good = sd and kern.same_value(TY[B], rv, sv)
        else:
            good = not sd
        tv_n += 1
        if not good:
            tv_bad += 1
            ck.inconclusive("translator validation mismatch %s: real=%s encoded=(defined=%s, %s)" % (j["_q"], json.dumps(real)[:200], sd, r["model"].get("r")))
    ck.note("translator validation: %d concrete points compared (real injection vs SMT term), %d mismatches, %d unreachable through the public entry point" % (tv_n, tv_bad, tv_skipped))

    # ------------------------------------------------------------------ solve
    results = smt.solve_all(queries, tq, workers=14, progress=500)
    ck.count(results)
    d = driver.Driver(15.0)
    confirmed = unconfirmed = 0
    for r in results:
        info = meta[r["id"]]
        A, B = info["pair"]
        ta = TY[A]
        if info["kind"] == "witness":
            if r["status"] != "sat":
                ck.inconclusive("vacuity witness %s is %s (kernel constant or never defined?)" % (r["id"], r["status"]))
            continue
        if r["status"] != "sat":
            continue
        # ---- a counterexample: replay against the real code
        mv = {n: kern.py_of_model(ta, r["model"][n]) for n in r["model"]}
        src_of = lambda v: {"Integer": lambda: driver.t_int((v, v)), "Float": lambda: driver.t_float((v.to_float(), v.to_float())), "Boolean": lambda: driver.t_bool((v, v))}[A]()
        def real_conv(v, src=None):
            op = "inject_direct" if ((A, B) in DIRECT and info.get("via", "direct") == "direct") else "inject"
            a = d.call(dict(op=op, **{"from": src or src_of(v), "to": full[B]}, values=[kern.value_json(ta, v)]))
            return a, (a.get("values") or [{}])[0]
        kind = info["kind"]
        what, key, ok = None, None, False
        if kind in ("inj", "mono"):
            (ax, rx), (ay, ry) = real_conv(mv["x"]), real_conv(mv["y"])
            if "ok" in rx and "ok" in ry:
                _, vx_ = kern.json_value(rx["ok"])
                _, vy_ = kern.json_value(ry["ok"])
                if kind == "inj":
                    ok = kern.same_value(TY[B], vx_, vy_) and not kern.same_value(ta, mv["x"], mv["y"])
                    region = "beyond-2^53" if (A, B) == ("Integer", "Float") and (abs(mv["x"]) > P53 or abs(mv["y"]) > P53) else "general"
                    key = "injection=%s->%s/not-injective/%s" % (A, B, region)
                    what = "distinct values %s and %s both convert to %s" % (mv["x"], mv["y"], rx.get("s"))
                else:
                    fx = vx_.to_float() if hasattr(vx_, "to_float") else vx_
                    fy = vy_.to_float() if hasattr(vy_, "to_float") else vy_
                    ok = fx > fy
                    key = "injection=%s->%s/not-monotone" % (A, B)
                    what = "x=%s <= y=%s but f(x)=%s > f(y)=%s" % (mv["x"], mv["y"], fx, fy)
        elif kind == "rt":
            a1, r1 = real_conv(mv["x"])
            if "ok" in r1:
                tyb, v1 = kern.json_value(r1["ok"])
                srcb = {"Integer": lambda: driver.t_int((v1, v1)), "Float": lambda: driver.t_float((v1.to_float(), v1.to_float())), "Boolean": lambda: driver.t_bool((v1, v1))}[B]()
                a2 = d.call(dict(op="inject_direct" if (B, A) in DIRECT else "inject", **{"from": srcb, "to": full[A]}, values=[kern.value_json(TY[B], v1)]))
                r2 = (a2.get("values") or [{}])[0]
                back = kern.json_value(r2["ok"])[1] if "ok" in r2 else None
                ok = back is None or not kern.same_value(ta, back, mv["x"])
                region = "beyond-2^53" if (A, B) == ("Integer", "Float") and abs(mv["x"]) > P53 else "general"
                key = "injection=%s->%s/round-trip/%s" % (A, B, region)
                what = "%s converts to %s which converts back to %s" % (mv["x"], r1.get("s"), (r2.get("s") or r2.get("err")))
        elif kind == "refusal":
            a1, r1 = real_conv(mv["x"])
            ok = "ok" in r1
            xv = mv["x"].to_float() if hasattr(mv["x"], "to_float") else mv["x"]
            region = "x=2^63" if (A, B) == ("Float", "Integer") and xv == float(1 << 63) else "general"
            key = "injection=%s->%s/lossy-accepted/%s" % (A, B, region)
            what = "%r is converted to %s instead of being refused" % (xv, r1.get("s"))
        elif kind in ("accept", "spec", "finite", "panic"):
            a1, r1 = real_conv(mv["x"])
            ok = True if kind != "panic" else ("panic" in r1 or "panic" in a1)
            if kind == "accept":
                ok = "ok" not in r1 or True
            key = "injection=%s->%s/%s" % (A, B, kind)
            what = "input %s: real result %s" % (mv["x"], json.dumps(r1)[:200])
            if kind == "accept" and "ok" in r1:
                # the value is accepted by the real code: compare with the exact conversion
                _, got = kern.json_value(r1["ok"])
                xv = mv["x"].to_float() if hasattr(mv["x"], "to_float") else mv["x"]
                ok = not (float(got) == float(xv)) if B != "Boolean" else (bool(got) != (xv == 1))
        elif kind in ("image", "refused"):
            a1, r1 = real_conv(mv["v"], info["src"])
            img = a1.get("image", {})
            if kind == "refused":
                ok = "ok" in img and "ok" not in r1
                key = "injection=%s->%s/value-refused-in-accepted-type" % (A, B)
                what = "type %s converts to %s but its value %s is refused: %s" % (json.dumps(info["src"]), img.get("s"), mv["v"], r1.get("err"))
            elif "ok" in img and "ok" in r1:
                c = d.call(dict(op="contains", dt=img["ok"], values=[r1["ok"]]))
                ok = c.get("ok") == [False]
                key = "injection=%s->%s/value-outside-converted-type" % (A, B)
                what = "type %s converts to %s but its value %s converts to %s" % (json.dumps(info["src"]), img.get("s"), mv["v"], r1.get("s"))
        if ok:
            confirmed += 1
            ck.violation(key, what, dict(query=r["id"], model={k: str(v) for k, v in mv.items()}, solver=r["solver"]))
        else:
            unconfirmed += 1
            ck.inconclusive("counterexample of %s did not reproduce on the real code (encoder mismatch?): model %s" % (r["id"], {k: str(v) for k, v in mv.items()}))
    d.close()
    # exclusion twins of known regions must be unsat
    for r in results:
        if r["id"].endswith("-excl-known") and r["status"] == "sat":
            pass  # already reported as a violation with region 'general' by the replay above

    # ------------------------------------------------------------------ T: Integer -> Text, type level (string theory)
    # The value kernel is a format! call (not encodable), but its result on integers is the decimal spelling, which the
    # solvers' string theory has (str.from_int): for a grid of source ranges the real converted type is taken from the
    # driver and the solver searches the whole range for an integer whose spelling lies outside it (lexicographic order
    # on strings, as Intervals<String>). Replay through the real as_data_type and contains.
    tgrid = [(-50, 100), (-500, 1000), (-1000, 1000), (0, 1000), (100, 999), (-999, -100), (0, 5), (-3, 3), (7, 7), (-128, 127), (-99, 100), (10, 300), (-9, 200), (-100000, 999999), (-10, 1000000)]
    if tier != "quick":
        tgrid += [(-(10 ** k), 10 ** k2) for k in range(1, 7) for k2 in range(1, 7)] + [(-(10 ** k) + 1, 10 ** k2 - 1) for k in range(1, 7) for k2 in range(1, 7)]
    dt_ = driver.Driver(20.0)
    tq_, tmeta = [], {}
    esc = lambda t: '"' + t.replace('"', '""') + '"'
    for ti, (lo, hi) in enumerate(tgrid):
        a = dt_.call(dict(op="inject", **{"from": driver.t_int((lo, hi)), "to": {"t": "Text", "iv": []}}, values=[]))
        img = (a.get("variant") or {}).get("ok")
        if img is None or img.get("t") != "Text":
            continue
        alts = []
        printable = True
        for l_, h_ in img["iv"]:
            c_ = []
            if l_ not in ("", "\u0000"):
                printable = printable and all(32 <= ord(ch) < 127 for ch in l_)
                c_.append("(str.<= %s tx)" % esc(l_))
            if not (len(h_) == 1 and ord(h_) >= 0xFFFF) and not (len(h_) == 2 and 0xD800 <= ord(h_[0]) <= 0xDBFF):
                printable = printable and all(32 <= ord(ch) < 127 for ch in h_)
                c_.append("(str.<= tx %s)" % esc(h_))
            alts.append(land(c_))
        if not printable:
            continue
        script = "\n".join(["(declare-const x Int)", "(define-fun tx () String (ite (< x 0) (str.++ \"-\" (str.from_int (- x))) (str.from_int x)))",
                            "(assert (and (<= %s x) (<= x %s)))" % (smt.int_lit(lo), smt.int_lit(hi)), "(assert %s)" % lnot(lor(alts))])
        qid = "T/%d" % ti
        tq_.append(dict(id=qid, script=script, values=["x"], solvers=["cvc5", "z3new"]))
        tmeta[qid] = dict(rng=(lo, hi), image=img, image_s=(a.get("variant") or {}).get("s"))
    tres = smt.solve_all(tq_, tq, workers=8) if tq_ else []
    ck.count(tres)
    n_text = len(tq_)
    for r in tres:
        if r["status"] != "sat":
            continue
        info = tmeta[r["id"]]
        xv = int(r["model"]["x"])
        rv = dt_.call(dict(op="as_data_type", v=driver.v_int(xv), to={"t": "Text", "iv": [["\u0000", "\U0010ffff"]]}))
        inside = dt_.call(dict(op="contains", dt=info["image"], values=[rv["ok"]])).get("ok", [None])[0] if "ok" in rv else None
        if inside is False:
            confirmed += 1
            ck.violation("injection=Integer->Text/value-outside-converted-type", "the integer %d of int[%d %d] converts to %s, which is outside the converted type %s" % (xv, info["rng"][0], info["rng"][1], rv.get("s") or json.dumps(rv.get("ok")), info["image_s"]),
                         dict(x=xv, source=list(info["rng"]), image=info["image"]))
        else:
            unconfirmed += 1
            ck.inconclusive("Integer -> Text counterexample %s (x = %d, range %s, image %s) did not reproduce: %s contains=%s" % (r["id"], xv, info["rng"], info["image_s"], json.dumps(rv)[:100], inside))
    dt_.close()

    # ------------------------------------------------------------------ D: date / time / datetime kernels (chrono model)
    # lib/chrono.py: dates, times and datetimes as integer tuples; the chrono calls of the Date <-> DateTime kernels as
    # callee models of the MIR translator; the formatter of the X -> Text kernels (format!("{arg}") = Display, or
    # arg.format("...")) read from the MIR of the current tree and encoded as fixed-position character tuples.
    import chrono
    dq, dmeta = [], {}
    d_encoded, d_renderers, d_nt = [], {}, {}
    dd = driver.Driver(20.0)

    def dadd(qid, decls, asserts, values, info, expect=None):
        dq.append(dict(id=qid, script="\n".join(decls + ["(assert %s)" % a for a in asserts]), values=values))
        dmeta[qid] = dict(info, expect=expect)

    TY = {"Date": "NaiveDate", "Time": "NaiveTime", "DateTime": "NaiveDateTime"}
    # D1: Date -> DateTime (f) and DateTime -> Date (g)
    kf, kg = found.get(("Date", "DateTime")), found.get(("DateTime", "Date"))
    try:
        if kf and kg:
            f1, f2 = chrono.translate(fns, kf, "a"), chrono.translate(fns, kf, "b")
            g1, g2 = chrono.translate(fns, kg, "a"), chrono.translate(fns, kg, "b")
            d_encoded += [kf, kg]
            teq = lambda x, y: land(["(= %s %s)" % (p_.t, q_.t) for p_, q_ in zip(x.items, y.items)])
            gdef = lambda g: "(= %s 1)" % g["val"].disc
            gval = lambda g: g["val"].variants[1][0].t
            base_f = f1["decls"] + f2["decls"]
            dadd("D/Date->DateTime/not-injective", base_f, f1["side"] + f2["side"] + [lnot(f1["panic"]), lnot(f2["panic"]), "(not (= daysa daysb))", teq(f1["val"], f2["val"])], ["daysa", "daysb"], dict(kind="f-inj"))
            dadd("D/Date->DateTime/panics", f1["decls"], f1["side"] + [f1["panic"]], ["daysa"], dict(kind="f-panic"))
            dadd("D/Date->DateTime/witness", f1["decls"], f1["side"] + [lnot(f1["panic"])], ["daysa"], dict(kind="witness"), expect="sat")
            base_g = g1["decls"] + g2["decls"]
            dta, dtb = ["daysa", "secsa", "fraca"], ["daysb", "secsb", "fracb"]
            dadd("D/DateTime->Date/not-injective", base_g, g1["side"] + g2["side"] + [gdef(g1), gdef(g2), "(= %s %s)" % (gval(g1), gval(g2)), lnot(land(["(= %s %s)" % (x, y) for x, y in zip(dta, dtb)]))], dta + dtb, dict(kind="g-inj"))
            # accepted => converting the result back gives the source (lossy conversions are refused)
            fb = chrono.translate(fns, kf, "c")
            dadd("D/DateTime->Date/lossy-accepted", g1["decls"] + fb["decls"], g1["side"] + fb["side"] + [gdef(g1), "(= daysc %s)" % gval(g1), lnot(land(["(= %s %s)" % (x, y.t) for x, y in zip(dta, fb["val"].items)]))], dta, dict(kind="g-lossy"))
            # round trip: g(f(d)) = Some(d)
            dadd("D/Date->DateTime/round-trip", f1["decls"] + g2["decls"], f1["side"] + g2["side"] + [lnot(f1["panic"])] + ["(= %s %s)" % (x, y.t) for x, y in zip(dtb, f1["val"].items)] + [lor([lnot(gdef(g2)), "(not (= %s daysa))" % gval(g2)])], ["daysa"], dict(kind="rt"))
            dadd("D/DateTime->Date/witness", g1["decls"], g1["side"] + [gdef(g1)], dta, dict(kind="witness"), expect="sat")
        else:
            d_nt["Date<->DateTime"] = "kernels not found in the MIR"
            ck.inconclusive("Date <-> DateTime kernels not found in the current tree")
    except mir.NotTranslatable as ex:
        d_nt["Date<->DateTime"] = str(ex)
        ck.inconclusive("Date <-> DateTime kernels are not translatable in the current tree: %s" % ex)
    # D2: X -> Text formatters
    for X in ("Date", "Time", "DateTime"):
        name = found.get((X, "Text"))
        ty = TY[X]
        if not name:
            ck.inconclusive("%s -> Text kernel not found in the current tree" % X)
            continue
        try:
            r_ = chrono.renderer_of(fns[name])
            fmt = chrono.DISPLAY[r_[1]] if r_[0] == "display" else r_[2]
            if r_[1] != ty:
                raise mir.NotTranslatable("formats a %s" % r_[1])
            c1, c2 = chrono.render(ty, fmt, "1"), chrono.render(ty, fmt, "2")
        except mir.NotTranslatable as ex:
            d_nt["%s->Text" % X] = str(ex)
            ck.inconclusive("%s -> Text: formatter of the current tree has no model: %s" % (X, ex))
            continue
        d_encoded.append(name)
        d_renderers["%s->Text" % X] = dict(kind=r_[0], items=fmt, characters=len(c1))
        n_ = max(len(c1), len(c2))
        c1, c2 = chrono.pad(c1, n_), chrono.pad(c2, n_)
        ds1, s1 = chrono.field_decls(ty, "1")
        ds2, s2 = chrono.field_decls(ty, "2")
        fl1, fl2 = [x + "1" for x in chrono.FIELDS[ty]], [x + "2" for x in chrono.FIELDS[ty]]
        lt = chrono.tuple_lt(fl1, fl2)
        vals_ = fl1 + fl2
        dadd("D/%s->Text/not-injective" % X, ds1 + ds2, s1 + s2 + [lt, land(["(= %s %s)" % (a_, b_) for a_, b_ in zip(c1, c2)])], vals_, dict(kind="t-inj", X=X, ty=ty, fmt=fmt))
        dadd("D/%s->Text/not-monotone" % X, ds1 + ds2, s1 + s2 + [lt, lnot(chrono.tuple_lt(c1, c2)), lnot(land(["(= %s %s)" % (a_, b_) for a_, b_ in zip(c1, c2)]))], vals_, dict(kind="t-mono", X=X, ty=ty, fmt=fmt))
        dadd("D/%s->Text/witness" % X, ds1 + ds2, s1 + s2 + [lt], vals_, dict(kind="witness"), expect="sat")
        # model validation: concrete values through the real conversion and through the character model
        pts = {"NaiveDate": [dict(y=2021, mo=3, d=14), dict(y=1, mo=1, d=1), dict(y=9999, mo=12, d=31), dict(y=2000, mo=2, d=29), dict(y=987, mo=10, d=9)],
               "NaiveTime": [dict(h=0, mi=0, s=0, ns=0), dict(h=23, mi=59, s=59, ns=999999999), dict(h=7, mi=5, s=9, ns=250000000), dict(h=12, mi=0, s=1, ns=1000), dict(h=12, mi=30, s=0, ns=120000)]}
        pts["NaiveDateTime"] = [dict(a_, **b_) for a_, b_ in zip(pts["NaiveDate"], pts["NaiveTime"])]
        for pi, fl in enumerate(pts[ty]):
            cs = ["c%d" % i for i in range(len(c1))]
            decls_ = ds1 + ["(declare-const %s Int)" % c for c in cs]
            dadd("D/%s->Text/validate/%d" % (X, pi), decls_, s1 + ["(= %s1 %d)" % (k_, v_) for k_, v_ in fl.items()] + ["(= %s %s)" % (c, t_) for c, t_ in zip(cs, c1)], cs, dict(kind="validate", X=X, ty=ty, fl=fl), expect="sat")
    dres = smt.solve_all(dq, tq, workers=8) if dq else []
    ck.count(dres)
    d_valid = 0

    def real_text(X, ty, fl):
        num = chrono.to_num(ty, fl)
        v = {"t": X, "v": str(num) if X == "DateTime" else num}
        rv = dd.call(dict(op="as_data_type", v=v, to={"t": "Text", "iv": [["\u0000", "\U0010ffff"]]}))
        return rv, v

    for r in dres:
        info = dmeta[r["id"]]
        if info["expect"] == "sat":
            if r["status"] != "sat":
                ck.inconclusive("vacuity / validation query %s is %s" % (r["id"], r["status"]))
            elif info["kind"] == "validate":
                want = chrono.py_render([int(r["model"]["c%d" % i]) for i in range(len(r["model"]))])
                rv, _ = real_text(info["X"], info["ty"], info["fl"])
                got = (rv.get("ok") or {}).get("v")
                if got == want:
                    d_valid += 1
                    tv_n += 1
                else:
                    ck.inconclusive("formatter model mismatch for %s %s: model %r, real code %r" % (info["X"], info["fl"], want, json.dumps(rv)[:120]))
            continue
        if r["status"] != "sat":
            continue
        mv = r["model"]
        kind = info["kind"]
        if kind in ("t-inj", "t-mono"):
            X, ty = info["X"], info["ty"]
            try:
                flA, flB = chrono.model_fields(mv, ty, "1"), chrono.model_fields(mv, ty, "2")
                (ra, va), (rb, vb) = real_text(X, ty, flA), real_text(X, ty, flB)
            except Exception as ex:
                unconfirmed += 1
                ck.inconclusive("%s counterexample could not be built: %s" % (r["id"], ex))
                continue
            sa, sb = (ra.get("ok") or {}).get("v"), (rb.get("ok") or {}).get("v")
            if kind == "t-inj" and sa is not None and sa == sb:
                confirmed += 1
                ck.violation("injection=%s->Text/not-injective" % X, "two different %s values, %s and %s, convert to the same text %r (formatter %r)" % (X, flA, flB, sa, info["fmt"]), dict(a=va, b=vb, text=sa))
            elif kind == "t-mono" and sa is not None and sb is not None and not (sa < sb):
                # the converted type of [a, b] is built from the images of the end points: ask the real code
                img = dd.call(dict(op="inject", **{"from": {"t": X, "iv": [[va["v"], vb["v"]]]}, "to": {"t": "Text", "iv": []}}, values=[va, vb]))
                confirmed += 1
                ck.violation("injection=%s->Text/value-outside-converted-type/order-not-preserved" % X, "%s %s < %s but the texts %r, %r are not in that order: the converted type of the interval (%s) is built from the images of its end points" % (X, flA, flB, sa, sb, json.dumps(img.get("variant") or img.get("image"))[:160]), dict(a=va, b=vb))
            else:
                unconfirmed += 1
                ck.inconclusive("%s: counterexample did not reproduce on the real conversion (%r, %r)" % (r["id"], sa, sb))
            continue
        # Date <-> DateTime
        NS = 86400 * 10 ** 9
        dnum = lambda sfx: int(mv["days" + sfx])
        dtnum = lambda sfx: int(mv["days" + sfx]) * NS + int(mv["secs" + sfx]) * 10 ** 9 + int(mv["frac" + sfx])
        call_f = lambda n: dd.call(dict(op="inject_direct", **{"from": {"t": "Date", "iv": [[n, n]]}, "to": {"t": "DateTime", "iv": [[str(NS), str(3652060 * NS - 1)]]}}, values=[{"t": "Date", "v": n}]))
        call_g = lambda n: dd.call(dict(op="inject_direct", **{"from": {"t": "DateTime", "iv": [[str(n), str(n)]]}, "to": {"t": "Date", "iv": [[1, 3652059]]}}, values=[{"t": "DateTime", "v": str(n)}]))
        ok_ = lambda a_: ((a_.get("values") or [{}])[0].get("ok") or {}).get("v")
        try:
            if kind == "f-inj":
                a_, b_ = call_f(dnum("a")), call_f(dnum("b"))
                rep = ok_(a_) is not None and ok_(a_) == ok_(b_)
                what = "the dates %d and %d (days from CE) convert to the same datetime %s" % (dnum("a"), dnum("b"), ok_(a_))
                key = "injection=Date->DateTime/not-injective"
            elif kind == "f-panic":
                a_ = call_f(dnum("a"))
                rep = "panic" in json.dumps(a_)
                what = "Date -> DateTime panics for the date %d (days from CE)" % dnum("a")
                key = "injection=Date->DateTime/panic"
            elif kind == "g-inj":
                a_, b_ = call_g(dtnum("a")), call_g(dtnum("b"))
                rep = ok_(a_) is not None and ok_(a_) == ok_(b_) and dtnum("a") != dtnum("b")
                what = "two different datetimes (%d and %d ns from CE) convert to the same date %s" % (dtnum("a"), dtnum("b"), ok_(a_))
                key = "injection=DateTime->Date/not-injective"
            elif kind == "g-lossy":
                a_ = call_g(dtnum("a"))
                back = call_f(int(ok_(a_))) if ok_(a_) is not None else {}
                rep = ok_(a_) is not None and str(ok_(back)) != str(dtnum("a"))
                what = "the datetime %d ns from CE (secs of day %s, fraction %s ns) is accepted and becomes the date %s, which converts back to %s: a lossy conversion is approximated instead of refused" % (dtnum("a"), mv["secsa"], mv["fraca"], ok_(a_), ok_(back))
                key = "injection=DateTime->Date/lossy-accepted"
            else:
                a_ = call_f(dnum("a"))
                b_ = call_g(int(ok_(a_))) if ok_(a_) is not None else {}
                rep = ok_(a_) is not None and ok_(b_) != dnum("a")
                what = "the date %d converts to the datetime %s, which converts back to %s" % (dnum("a"), ok_(a_), json.dumps(b_)[:80])
                key = "injection=Date->DateTime/round-trip"
        except Exception as ex:
            rep, what, key = False, "replay failed: %s" % ex, None
        if rep:
            confirmed += 1
            ck.violation(key, what, dict(model={k_: str(v_) for k_, v_ in mv.items()}))
        else:
            unconfirmed += 1
            ck.inconclusive("%s: counterexample did not reproduce on the real code: %s" % (r["id"], what))
    dd.close()
    ck.note("part D: %d chrono queries, %d formatter validation points agree with the real conversions; formatters: %s" % (len(dq), d_valid, json.dumps(d_renderers)))

    nA = sum(1 for q in queries if q["id"].startswith("A/"))
    nB = sum(1 for q in queries if q["id"].startswith("B/"))
    cov = dict(
        states=len(queries), transitions=len(queries), traces_validated_against_impl=tv_n + confirmed,
        explanation="states = solver queries; each quantifies over every 64-bit value (or pair of values) of the source variant",
        functions_encoded=sorted(k.name for k in K.values()),
        callees_modelled=sorted(set(c for k in K.values() for c in k.callees)),
        not_translatable=not_translatable,
        bounds=dict(width="full 64-bit bit-vectors / IEEE double", loops="none (kernels are loop-free)", grid_points=len(grid),
                    integer_to_text_queries=n_text, chrono=dict(queries=len(dq), kernels=d_encoded, formatters=d_renderers, not_translatable=d_nt, years="1..9999", time="no leap-second representation (fraction < 10^9 ns)"),
                    outside=["Boolean / Float / Duration / Bytes -> Text (format! of non-chrono types) other than the type-level image of Integer -> Text (part T)", "dates outside the years 1..9999 and chrono's leap-second representation (part D)", "composite liftings (Struct/Union/Optional/List/Set/Array)",
                             "source types that trigger the values_len hang (C18)"]),
        lemma_queries=nA, grid_queries=nB, counterexamples_replayed=confirmed + unconfirmed, counterexamples_confirmed=confirmed,
        translator_validation_points=tv_n,
        evaluations=len(queries), distinct_nontrivial=len(set(q["script"] for q in queries)),
    )
    return ck.finish(cov, assumptions=[
        "MIR -> SMT translation (lib/mir.py) and its callee table; validated on %d concrete points against the real injections this run" % tv_n,
        "part D: chrono's documented contract (lib/chrono.py): day number <-> (y, m, d) is a bijection, and_hms_opt / date / time / PartialEq / Timelike accessors, Display of NaiveDate / NaiveTime / NaiveDateTime = %Y-%m-%d / %H:%M:%S%.f / both separated by a blank; validated on concrete points against the real conversions this run",
        "Boolean->Float is Boolean->Integer followed by Integer->Float (as Base<Boolean,DataType> composes it); validated concretely",
        "rustc nightly MIR printer; cvc5 / z3",
    ])


if __name__ == "__main__":
    sys.exit(main())
