#!/usr/bin/env python3-vt
"""C14 - columns declared unique really are unique in every execution.

S  every relation node whose schema flags a column Unique / PrimaryKey is executed symbolically (engine S) over all
   databases of <= K rows per table that honour the base-table constraints; the solver looks for two present output rows
   with equal non-NULL values in that column. Counterexample databases are replayed on SQLite.
M  every scalar function the library lists as a bijection (Function::is_bijection, which lets a projection keep the
   constraint) and whose kernel is translatable is checked for injectivity on all 64-bit inputs.
"""
import os, sys, json, re, itertools
sys.path.insert(0, os.path.join(os.path.dirname(os.path.abspath(__file__)), "..", "lib"))
sys.path.insert(0, os.path.dirname(os.path.abspath(__file__)))
import mir, smt, kern, driver, symrel, progs, sqlrun, exprsem
import c07, c01
from common import Check, seed
from smt import land, lor, lnot, bv64

PID = "C14"
P53 = 1 << 53

EXTRA = [
    "SELECT id FROM t",
    "SELECT id, a FROM t WHERE a > 2",
    "SELECT -id AS m, id + 1 AS p FROM t",
    "SELECT CAST(id AS FLOAT) AS f FROM t",
    "SELECT a, count(*) AS n FROM t GROUP BY a",
    "SELECT a, g, count(*) AS n FROM t GROUP BY a, g",
    "SELECT a, sum(g) AS s FROM t GROUP BY a",
    "SELECT a, count(*) AS n FROM t GROUP BY a, g",
    "SELECT g, sum(a) AS s, count(*) AS n FROM t GROUP BY g, c",
    "SELECT a, n FROM (SELECT a, g, count(*) AS n FROM t GROUP BY a, g) AS z",
    "SELECT t.id AS ti, u.id AS ui FROM t JOIN u ON t.id = u.id",
    "SELECT t.id AS ti, u.id AS ui FROM t JOIN u ON t.a = u.a",
    "SELECT t.id AS ti, u.id AS ui FROM t LEFT JOIN u ON t.id = u.id",
    "SELECT t.id AS ti, u.id AS ui FROM t JOIN u ON t.id = u.id OR t.a = u.a",
    "SELECT t.id AS ti, u.id AS ui, u.x AS ux FROM t JOIN u ON t.id = u.id AND t.a < u.a",
    "SELECT t.id AS ti, u.id AS ui FROM t CROSS JOIN u",
    "SELECT t.id AS ti, u.id AS ui FROM t JOIN u ON t.id = u.id OR t.k = u.k",
    "SELECT t.id AS ti, u.k AS uk FROM t JOIN u ON t.id = u.id AND t.k = u.k",
    "SELECT t.k AS tk, u.id AS ui FROM t LEFT JOIN u ON t.k = u.k OR t.id = u.id",
    "SELECT id FROM t UNION SELECT id FROM u",
    "SELECT DISTINCT a FROM t",
    "SELECT id FROM (SELECT id, a FROM t WHERE g > 0) AS z",
    "SELECT u.id AS ui, count(*) AS n FROM t JOIN u ON t.a = u.a GROUP BY u.id",
]


def main():
    tier = sys.argv[1] if len(sys.argv) > 1 else "quick"
    ck = Check(PID, tier, "translation_validation")
    tq = 30.0 if tier == "quick" else 120.0
    K = 2 if tier == "quick" else 3
    driver.build()
    path, _ = mir.dump_mir()
    fns = mir.parse_mir(path)
    tables_json = progs.catalogue(K)
    programs = EXTRA + progs.programs(tier, seed())
    queries, meta, stats = c07.build_queries(ck, fns, tables_json, programs, K, want=("unique",))
    # literal Values relations (their list is program text): every list over {1,2,3} of length <= 3, some longer ones
    lists = [list(l) for n in (1, 2, 3) for l in itertools.product((1, 2, 3), repeat=n)] + [[1, 2, 3, 1], [2, 1, 2, 3], [1, 2, 3, 4], [3, 1, 2, 2]]
    if tier == "quick":
        lists = [l for i, l in enumerate(lists) if len(l) != 3 or i % 3 == 0 or l in ([1, 2, 1], [1, 1, 2], [2, 1, 1])]
    vprogs = ["SELECT vals AS v FROM vals", "SELECT vals.vals AS v, t.a AS a FROM vals JOIN t ON vals.vals = t.k", "SELECT vals.vals AS v, u.x AS x FROM vals LEFT JOIN u ON vals.vals = u.id"]
    for li, l in enumerate(lists):
        q2, m2, s2 = c07.build_queries(ck, fns, tables_json + [dict(name="vals", values=l)], vprogs if li % 4 == 0 else vprogs[:2], K, want=("unique",))
        for q in q2:
            if q["id"].startswith("W|"):
                continue
            nid = "v%d:%s" % (li, q["id"])
            m2[q["id"]]["values_list"] = l
            meta[nid] = m2[q["id"]]
            queries.append(dict(q, id=nid))
        stats["programs"] += s2["programs"]
        stats["refused"] += s2["refused"]
    n_flagged = sum(1 for q in queries if q["id"].startswith("unique|"))

    # ---- M: bijection flags
    d = driver.Driver(60.0)
    fl = d.call(dict(op="fn_list")).get("ok", [])
    bij = [f["f"] for f in fl if f.get("is_bijection")]
    bank = exprsem.Bank(fns, "bv")
    not_decidable = []
    SORT = {"bool": "Bool", "i64": "(_ BitVec 64)", "f64": "(_ FloatingPoint 11 53)"}
    for f in bij:
        cands = []
        if f in ("CastAsFloat", "CastAsInteger"):
            cands = [bank.kernel_name(f, 0)]
        else:
            cands = [n for n in fns if re.fullmatch(r"(?:data_type::function::)?%s::\{closure#\d+\}" % exprsem.snake(f), n)]
        done = False
        for name in cands:
            if name is None:
                continue
            try:
                k = kern.Kernel(fns, name, "bv")
            except mir.NotTranslatable:
                continue
            if len(k.arg_tys) != 1 or any("uf_" in c or re.search(r"::(ln|exp|log|sqrt|sin|cos|powf)$", c) for c in k.callees):
                continue
            ty = k.arg_tys[0]
            ix, iy = k.inst(["x"]), k.inst(["y"])
            rt = ix["val"].ty
            neq = "(not (fp.eq x y))" if ty == "f64" else "(not (= x y))"
            same = "(fp.eq %s %s)" % (ix["val"].t, iy["val"].t) if rt == "f64" else "(= %s %s)" % (ix["val"].t, iy["val"].t)
            nan = ["(not (fp.isNaN x))", "(not (fp.isNaN y))", "(not (fp.isInfinite x))", "(not (fp.isInfinite y))"] if ty == "f64" else []
            decls = ["(declare-const x %s)" % SORT[ty], "(declare-const y %s)" % SORT[ty]] + ix["decls"] + iy["decls"]
            regions = []
            if f == "CastAsFloat":
                small = lambda v: "(and (bvsle %s %s) (bvsle %s %s))" % (bv64(-P53), v, v, bv64(P53))
                regions = [("beyond-2^53", lnot(land([small("x"), small("y")])))]
            for rk, rp in regions:
                qid = "bij|%s|%s" % (f, rk)
                queries.append(dict(id=qid, script="\n".join(decls + ["(assert %s)" % a for a in [neq, same, rp] + nan]), values=["x", "y"]))
                meta[qid] = dict(what="bij", f=f, ty=ty, region=rk)
            qid = "bij|%s|other" % f
            queries.append(dict(id=qid, script="\n".join(decls + ["(assert %s)" % a for a in [neq, same] + [lnot(rp) for _, rp in regions] + nan]), values=["x", "y"]))
            meta[qid] = dict(what="bij", f=f, ty=ty, region="other")
            done = True
            break
        if not done:
            not_decidable.append(f)

    results = smt.solve_all(queries, tq, workers=14, order=["z3new", "cvc5"], progress=1000)
    results = smt.replayable_models(queries, results, tq, workers=14, order=["z3new", "cvc5"])
    ck.count(results)
    n_w = disagreements = 0
    def depth_of(node):
        return 1 + max([depth_of(node[k]) for k in ("input", "left", "right") if k in node] or [0])
    results = sorted(results, key=lambda r: depth_of(meta[r["id"]]["node_json"]) if "node_json" in meta[r["id"]] else 0)
    confirmed_nodes = set()
    for r in results:
        info = meta[r["id"]]
        if info["what"] == "witness":
            n_w += r["status"] == "sat"
            continue
        if r["status"] != "sat":
            continue
        disagreements += 1
        if info["what"] == "bij":
            x = kern.py_of_model(info["ty"], r["model"]["x"])
            y = kern.py_of_model(info["ty"], r["model"]["y"])
            rx = d.call(dict(op="fn_value", f=info["f"], args=[kern.value_json(info["ty"], x)]))
            ry = d.call(dict(op="fn_value", f=info["f"], args=[kern.value_json(info["ty"], y)]))
            sx = x.to_float() if hasattr(x, "to_float") else x
            sy = y.to_float() if hasattr(y, "to_float") else y
            if "ok" in rx and "ok" in ry and rx["ok"] == ry["ok"] and sx != sy:
                region = info["region"]
                if info["f"] == "CastAsInteger":
                    region = "rounding"
                ck.violation("bijection=%s/not-injective/%s" % (info["f"], region), "%s is listed as a bijection but %s(%r) = %s(%r) = %s" % (info["f"], info["f"], sx, info["f"], sy, rx.get("s")), dict(f=info["f"], x=repr(sx), y=repr(sy)))
            else:
                ck.inconclusive("bijection counterexample for %s did not reproduce: %r -> %s, %r -> %s" % (info["f"], sx, json.dumps(rx)[:80], sy, json.dumps(ry)[:80]))
            continue
        # ---- unique column with duplicates: replay on SQLite
        dbm = symrel.model_db(info["ctx_tables"], r["model"])
        node = info["node_json"]
        sql = c07.render_node_sql(d, None, node, info)
        shown_db = {".".join(p): rows for p, rows in dbm.items()}
        try:
            con = sqlrun.connect()
            sqlrun.load(con, {p: tj for p, (tj, _) in info["ctx_tables"].items()}, dbm)
            names, rows = sqlrun.run(con, c01.sqlite_fix(sql))
        except Exception as ex:
            ck.inconclusive("SQLite replay failed for `%s` node %s: %s" % (info["sql"], info["node"], ex))
            continue
        idx = names.index(info["col"]) if info["col"] in names else None
        vals = [row[idx] for row in rows if idx is not None and row[idx] is not None]
        dups = sorted({v for v in vals if vals.count(v) > 1})
        below = {n["name"] for n in symrel.inner_nodes(node)} - {info["node"]}
        if dups and any((info["sql"], n) in confirmed_nodes for n in below):
            confirmed_nodes.add((info["sql"], info["node"]))
            ck.note("duplicate in %s.%s of `%s` is inherited from an input node (reported there)" % (info["node"], info["col"], info["sql"]))
        elif dups:
            confirmed_nodes.add((info["sql"], info["node"]))
            role = node["k"] + (("/" + node["kind"]) if node.get("kind") else "")
            if node["k"] == "Reduce":
                role += "/group-by-%d-columns" % len(node.get("group_by", []))
            if node["k"] == "Join":
                on = json.dumps(node.get("on"))
                role += "/on-with-or" if '"f": "Or"' in on else ""
            if node["k"] == "Values":
                role += "/repeated-literal"
            ck.violation("unique=%s" % role, "`%s` node %s flags column %s as %s but SQLite returns the value %r %d times on %s" % (
                info["sql"], info["node"], info["col"], [f["constraint"] for f in node["schema"] if f["name"] == info["col"]][0], dups[0], vals.count(dups[0]), shown_db),
                dict(sql=info["sql"], node=info["node"], column=info["col"], db=shown_db, rendered=sql))
        else:
            ck.inconclusive("uniqueness counterexample did not reproduce for `%s` node %s column %s: values %s on %s" % (info["sql"], info["node"], info["col"], vals, shown_db))
    d.close()
    ck.samples = [dict(sql=s) for s in programs[:8]]
    cov = dict(
        programs=stats["programs"], disagreements_checked=disagreements, flagged_column_queries=n_flagged,
        refused_by_compiler=stats["refused"], skipped_unsupported=stats["unsupported"],
        bijections_listed=bij, bijections_not_decidable_here=not_decidable,
        bounds=dict(rows_per_table=K, outside=["databases with more than %d rows per table" % K, "Exp / Ln / Log / Sqrt / Md5 / CastAsText / Unhex / date casts (kernels not translatable or uninterpreted)"]),
        evaluations=len(queries), distinct_nontrivial=len(set(q["script"] for q in queries)),
    )
    return ck.finish(cov, assumptions=["relational semantics of lib/symrel.py; every reported duplicate is reproduced by SQLite on the SQL rendered by the library",
                                       "base tables honour their declared Unique / PrimaryKey constraints (assumed in the symbolic database)"])


if __name__ == "__main__":
    sys.exit(main())
