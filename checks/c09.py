#!/usr/bin/env python3-vt
"""C09 - the DP rewriting is exact when noise and clipping are inactive.

For each aggregation query (grouped by public-valued keys or ungrouped) the real `rewrite_with_differential_privacy` is
run; in the returned relation every Box-Muller term is replaced by 0 (structural pattern, lib/dpir.py) and the relation
is executed symbolically (engine S) next to the ORIGINAL relation on the same database: key columns follow an enumerated
layout, every measure value / NULL flag is a solver variable inside its declared range, every unit has at most K rows
(far below the multiplicity the clip bound allows for the default parameters). The solver is asked for a database on
which an original group is missing from the DP result or carries a different COUNT / SUM / AVG, or on which an extra DP
group carries a non-zero COUNT or SUM. Counterexamples are replayed on SQLite with RANDOM() overridden so that the
noise term vanishes.
"""
import os, sys, json, itertools, re, math
sys.path.insert(0, os.path.join(os.path.dirname(os.path.abspath(__file__)), "..", "lib"))
sys.path.insert(0, os.path.dirname(os.path.abspath(__file__)))
import mir, smt, kern, driver, symrel, sqlrun, exprsem, pucat, dpir
import c01
from symrel import Row, Rel
from common import Check, seed
from smt import land, lor, lnot, ite

PID = "C09"

# (sql, key columns, aggregate columns)
PROGRAMS = [
    ("SELECT sum(amount) AS s FROM orders", [], ["s"]),
    ("SELECT count(amount) AS n, sum(amount) AS s, avg(amount) AS m FROM orders", [], ["n", "s", "m"]),
    ("SELECT kind, sum(amount) AS s FROM orders GROUP BY kind", ["kind"], ["s"]),
    ("SELECT kind, avg(amount) AS m, count(*) AS n FROM orders GROUP BY kind", ["kind"], ["m", "n"]),
    ("SELECT sum(age) AS s, count(age) AS n FROM users", [], ["s", "n"]),
    ("SELECT sum(o.amount) AS s FROM orders AS o JOIN users AS u ON o.user_id = u.id", [], ["s"]),
    ("SELECT u.city AS city, sum(o.amount) AS s, count(o.amount) AS n FROM orders AS o JOIN users AS u ON o.user_id = u.id GROUP BY u.city", ["city"], ["s", "n"]),
    ("SELECT sum(price) AS s, avg(price) AS m FROM items", [], ["s", "m"]),
    ("SELECT sum(amount) AS s FROM orders WHERE amount > 0", [], ["s"]),
    ("SELECT kind, sum(qty) AS q, count(qty) AS n FROM orders GROUP BY kind", ["kind"], ["q", "n"]),
    ("SELECT kind, sum(amount) AS s, count(amount) AS n FROM orders WHERE qty IS NULL GROUP BY kind", ["kind"], ["s", "n"]),
    ("SELECT sum(bal) AS b, avg(bal) AS m FROM orders", [], ["b", "m"]),
    ("SELECT kind, sum(bal) AS b FROM orders GROUP BY kind", ["kind"], ["b"]),
    # variance / standard deviation (the DP side recombines noisy sums; either the population or the sample moment is accepted)
    ("SELECT variance(amount) AS v FROM orders", [], ["v"]),
    ("SELECT kind, stddev(amount) AS sd, count(amount) AS n FROM orders GROUP BY kind", ["kind"], ["sd", "n"]),
    # two public keys; a column with a range far below 1
    ("SELECT kind, flag, sum(amount) AS s, count(amount) AS n FROM orders GROUP BY kind, flag", ["kind", "flag"], ["s", "n"]),
    ("SELECT u.city AS city, o.kind AS kind, sum(o.amount) AS s FROM orders AS o JOIN users AS u ON o.user_id = u.id GROUP BY u.city, o.kind", ["city", "kind"], ["s"]),
    ("SELECT sum(frac) AS f, avg(frac) AS m FROM orders", [], ["f", "m"]),
    # DISTINCT aggregates (alone, next to plain aggregates, grouped)
    ("SELECT count(DISTINCT kind) AS k FROM orders", [], ["k"]),
    ("SELECT sum(DISTINCT kind) AS k, count(amount) AS n FROM orders", [], ["k", "n"]),
    ("SELECT flag, avg(DISTINCT kind) AS m, sum(amount) AS s FROM orders GROUP BY flag", ["flag"], ["m", "s"]),
    # outer join along the privacy-unit path: units without orders keep their (padded) row
    ("SELECT sum(u.age) AS s, count(u.age) AS n FROM users AS u LEFT JOIN orders AS o ON u.id = o.user_id", [], ["s", "n"]),
    ("SELECT u.city AS city, count(u.age) AS n FROM users AS u LEFT JOIN orders AS o ON u.id = o.user_id GROUP BY u.city", ["city"], ["n"]),
]


def num(c):
    return "(to_real %s)" % c.t if c.ty == "i64" else c.t


MOMENTS = {}   # value term of a VAR / STD cell -> dict(pop, sample, count) (filled per task from ctx.cache)


def agg_eq(a, b):
    m = MOMENTS.get(a.t)
    if m is not None and b.ty in ("i64", "f64"):
        # the data's variance / deviation: population or sample moment (the latter needs two values); no value -> NULL or 0
        alts = [land([lnot(a.n), lnot(b.n), "(= %s %s)" % (m["pop"], num(b))]),
                land([lnot(a.n), lnot(b.n), "(> %s 1)" % m["count"], "(= %s %s)" % (m["sample"], num(b))]),
                land([a.n, lor([b.n, "(= %s 0.0)" % num(b)])])]
        return lor(alts)
    return _agg_eq(a, b)


def _agg_eq(a, b):
    """original aggregate a vs DP aggregate b: a SUM / AVG over no row is NULL in SQL, the DP rewriting reports 0 (it must not
    reveal emptiness): NULL on the original side is matched by NULL or 0 on the DP side"""
    if a.ty in ("i64", "f64") and b.ty in ("i64", "f64"):
        return lor([land([a.n, lor([b.n, "(= %s 0.0)" % num(b)])]), land([lnot(a.n), lnot(b.n), "(= %s %s)" % (num(a), num(b))])])
    return symrel.cell_eq(a, b)


def num_eq(a, b):
    """equal as SQL numbers; NULL equals NULL (an AVG / SUM over no row is NULL on both sides)"""
    if a.ty in ("i64", "f64") and b.ty in ("i64", "f64"):
        return lor([land([a.n, b.n]), land([lnot(a.n), lnot(b.n), "(= %s %s)" % (num(a), num(b))])])
    return symrel.cell_eq(a, b)

G = {}


def build_task(t):
    fns, K = G["fns"], G["K"]
    clean, orig, lay, kc, ac = t["clean"], t["orig"], t["lay"], t["kc"], t["ac"]
    try:
        ctx = symrel.Ctx(fns)
        fx = c01.fixed_for(lay, K)
        db, ctx_tables = {}, {}
        both = dict(symrel.tables_of(clean))
        both.update(symrel.tables_of(orig))
        for p_, tj in both.items():
            r = symrel.make_table(ctx, tj, K, fixed=fx.get(p_[0]))
            db[p_] = r
            ctx_tables[p_] = (tj, r)
        memo = {}
        RD = symrel.eval_rel(ctx, clean, db, memo)
        RN = symrel.eval_rel(ctx, t["clean_nc"], db, memo) if t.get("clean_nc") is not None else None
        RO = symrel.eval_rel(ctx, orig, db, {})
        MOMENTS.clear()
        MOMENTS.update(ctx.cache.get("moments", {}))
    except exprsem.Unsupported as ex:
        return dict(unsupported=str(ex)[:50])
    samekey = lambda a, b: land([num_eq(a.cells[k], b.cells[k]) for k in kc])
    sameall = lambda a, b: land([num_eq(a.cells[k], b.cells[k]) for k in kc] + [agg_eq(a.cells[k], b.cells[k]) for k in ac])

    def bad_of(RD):
        bad = []
        for a in RO.rows:   # every original group is there with the same aggregates
            bad.append(land([a.p, lnot(lor([land([b.p, sameall(a, b)]) for b in RD.rows]))]))
        for b in RD.rows:   # an extra DP group (empty public group) carries zeros
            extra = land([b.p] + [lnot(land([a.p, samekey(a, b)])) for a in RO.rows])
            nonzero = lor([land([lnot(b.cells[c].n), "(not (= %s 0.0))" % num(b.cells[c])]) for c in ac if b.cells[c].ty in ("i64", "f64")])
            bad.append(land([extra, nonzero]))
        for b1, b2 in itertools.combinations(RD.rows, 2):   # two DP rows for one key
            bad.append(land([b1.p, b2.p, samekey(b1, b2)]) if kc else land([b1.p, b2.p]))
        return ctx.name(lor(bad), "bool", "bad")
    nopanic = [lnot(p) for p in ctx.bank.panics]
    qid = "exact|%d|L%d" % (t["qi"], t["li"])
    info = dict(sql=t["sql"], kc=kc, ac=ac, pu=t["pun"], ctx_tables=ctx_tables, rendered=t["rendered"], rendered_orig=t["rendered_orig"])
    if RN is None:
        out = [(dict(id=qid, script=ctx.script(nopanic + [bad_of(RD)]), values=symrel.value_names(ctx_tables), solvers=["cvc5", "z3new"]), dict(info, what="exact"))]
    else:
        # the result before the final clamp to the declared range must already be exact; a difference that only the clamp
        # introduces (a declared range that is too small) is asked separately and reported under its own role
        b_nc, b_full = bad_of(RN), bad_of(RD)
        out = [(dict(id=qid, script=ctx.script(nopanic + [b_nc]), values=symrel.value_names(ctx_tables), solvers=["cvc5", "z3new"]), dict(info, what="exact")),
               (dict(id="clamp|%d|L%d" % (t["qi"], t["li"]), script=ctx.script(nopanic + [b_full, lnot(b_nc)]), values=symrel.value_names(ctx_tables), solvers=["cvc5", "z3new"]), dict(info, what="exact", clamp=True))]
    if t["li"] == 0:
        out.append((dict(id="W|%d" % t["qi"], script=ctx.script(nopanic + [lor([a.p for a in RO.rows])]), values=[]), dict(what="witness")))
    return dict(queries=out)


def main():
    tier = sys.argv[1] if len(sys.argv) > 1 else "quick"
    ck = Check(PID, tier, "translation_validation")
    tq = 15.0 if tier == "quick" else 180.0
    K = int(os.environ.get("VERIF_K", "2"))   # thorough widens layouts / configurations / programs; VERIF_K=3 is the (slow) deeper row bound
    driver.build()
    path, _ = mir.dump_mir()
    fns = mir.parse_mir(path)
    tabs = pucat.tables(K)
    pus = pucat.pu_defs()
    configs = [("chain", "share1"), ("own-column", "share1")] if tier == "quick" else [(p, "share1") for p in pus]
    jobs, keys = [], []
    import random as _random
    rnd = _random.Random(seed() * 104729 + 9)
    extra, seen = [], {p_[0] for p_ in PROGRAMS}
    while len(extra) < (2 if tier == "quick" else 30):
        q = pucat.random_dp_program(rnd, aligned_only=True, joins=(tier != "quick"))   # C09 quantifies over joins along the privacy-unit path only
        if q[0] not in seen:
            seen.add(q[0])
            extra.append(q)
    for sql, kc, ac in list(PROGRAMS) + extra:
        for pun, prm in configs:
            jobs.append(dict(op="rewrite", mode="dp", tables=tabs, privacy_unit=pus[pun], dp=c01.PARAMS[prm], synthetic=False, sql=sql, render=True))
            keys.append((sql, kc, ac, pun, prm))
    answers = driver.parallel_batch(jobs, workers=12, timeout=180.0)
    lays = c01.layouts(K, tier)
    queries, meta = [], {}
    tasks = []
    G.update(fns=fns, K=K)
    stats = dict(programs=0, refused=0, unsupported={}, tau_filtered=0)
    for qi, ((sql, kc, ac, pun, prm), ans) in enumerate(zip(keys, answers)):
        if "ok" not in ans:
            stats["refused"] += 1
            if "panic" in ans:
                ck.note("rewrite_with_differential_privacy panics on `%s` (%s): %s" % (sql, pun, ans["panic"]))
            continue
        rel, orig = ans["ok"]["rewritten"], ans["ok"]["original"]
        prot = {t["table"] for t in pus[pun]["tables"]}
        if len({p_[0] for p_ in symrel.tables_of(orig)} & {"users", "orders", "items"}) > 1 and not ({p_[0] for p_ in symrel.tables_of(orig)} & {"users", "orders", "items"}) <= prot:
            stats["outside_pu_path"] = stats.get("outside_pu_path", 0) + 1
            continue   # a join with a table this definition does not protect is not a join along the privacy-unit path
        if not dpir.noise_maps(rel):
            continue   # nothing was noised (public query)
        if dpir.epsilon_deltas(ans["ok"]["dp_event"]):
            stats["tau_filtered"] += 1
            continue   # key release by thresholding: groups may legitimately be dropped (C04's business)
        clean = dpir.neutralise_relation(rel)
        if dpir.has_fn(clean, "Random"):
            ck.inconclusive("`%s` (%s): a Random() survives the neutralisation of the noise terms (pattern not recognised)" % (sql, pun))
            continue
        nc, changed = dpir.declamp_relation(rel)
        clean_nc = dpir.neutralise_relation(nc) if changed else None
        stats["programs"] += 1
        for li, lay in enumerate(lays):
            tasks.append(dict(qi=qi, li=li, lay=lay, sql=sql, kc=kc, ac=ac, pun=pun, clean=clean, clean_nc=clean_nc, orig=orig, rendered=ans.get("sql", {}).get("sqlite"), rendered_orig=ans.get("sql_original", {}).get("sqlite")))
        if qi % 4 == 0:
            ck.sample(dict(sql=sql, privacy_unit=pun, dp_event=ans["ok"]["dp_event_s"].strip()))
    from common import budgeted
    built, results = budgeted(ck, tasks, build_task, lambda qs: smt.replayable_models(qs, smt.solve_all(qs, tq, workers=14, progress=200), tq, workers=14), tier)
    for res in built:
        if "unsupported" in res:
            stats["unsupported"][res["unsupported"]] = stats["unsupported"].get(res["unsupported"], 0) + 1
            continue
        for q, mt in res["queries"]:
            queries.append(q)
            meta[q["id"]] = mt
    ck.count(results)
    n_w = disagreements = 0
    for r in results:
        info = meta[r["id"]]
        if info["what"] == "witness":
            n_w += r["status"] == "sat"
            continue
        if r["status"] != "sat":
            continue
        disagreements += 1
        dbm = symrel.model_db(info["ctx_tables"], r["model"])
        shown = {".".join(p_): rows for p_, rows in dbm.items()}
        tj = {p_: t for p_, (t, _) in info["ctx_tables"].items()}
        try:
            con = sqlrun.connect(random_value=0.25)   # cos(2 pi 0.25) = 0: the Box-Muller term vanishes
            sqlrun.load(con, tj, dbm)
            n1, dp_rows = sqlrun.run(con, c01.sqlite_fix(info["rendered"]))
            n0, or_rows = sqlrun.run(con, c01.sqlite_fix(info["rendered_orig"]))
            # variance / deviation: the data's population moment is accepted as well as the sample moment
            pop_sql = re.sub(r"\bVAR\(", "VAR_POP(", re.sub(r"\bSTDDEV\(", "STDDEV_POP(", c01.sqlite_fix(info["rendered_orig"])))
            or_rows_pop = sqlrun.run(con, pop_sql)[1] if pop_sql != c01.sqlite_fix(info["rendered_orig"]) else None
        except Exception as ex:
            ck.inconclusive("SQLite replay failed for `%s` (%s): %s" % (info["sql"], info["pu"], str(ex)[:200]))
            continue
        cols = info["kc"] + info["ac"]
        tol = lambda x, y: (x is None and (y is None or abs(float(y)) <= 1e-6)) or (x is not None and y is not None and abs(float(x) - float(y)) <= 1e-6 * max(1.0, abs(float(x))))
        proj = lambda names, row: [row[names.index(c)] for c in cols]
        dpp = [proj(n1, row) for row in dp_rows]
        orp = [proj(n0, row) for row in or_rows]
        orp_pop = [proj(n0, row) for row in or_rows_pop] if or_rows_pop is not None else None
        nk = len(info["kc"])
        problems = []
        for ai, a in enumerate(orp):
            alts = [a] + ([orp_pop[ai]] if orp_pop is not None and ai < len(orp_pop) else [])
            if not any(all(tol(x, y) for x, y in zip(a_, b)) for b in dpp for a_ in alts):
                problems.append("original row %s%s has no equal row in the DP result %s" % (a, (" (population moments: %s)" % alts[1]) if len(alts) > 1 else "", dpp))
        for b in dpp:
            if not any(all(tol(x, y) for x, y in zip(a[:nk], b[:nk])) for a in orp):
                if any(v not in (None, 0, 0.0) and abs(float(v)) > 1e-6 for v in b[nk:]):
                    problems.append("extra DP group %s is not empty" % (b,))
        if problems:
            aggs = sorted({re.sub(r"\(.*", "", x.strip()) for x in info["sql"].split(" FROM")[0].replace("SELECT ", "").split(",") if "(" in x})
            key = "dp=inexact-without-noise/%s" % "+".join(aggs)
            # role of the columns that differ: if every differing column is the output of a DISTINCT aggregate the finding is
            # "DISTINCT is not applied by the DP compilation" (keyed by the aggregate function), otherwise the general key
            items = {}
            for x in info["sql"].split(" FROM")[0].replace("SELECT ", "").split(","):
                mm_ = re.match(r"\s*(\w+)\((DISTINCT\s+)?.*\)\s+AS\s+(\w+)\s*$", x, re.I)
                if mm_:
                    items[mm_.group(3)] = (mm_.group(1).lower(), bool(mm_.group(2)))
            diff_cols = []
            for a in orp:
                for b in dpp:
                    if all(tol(x, y) for x, y in zip(a[:nk], b[:nk])):
                        diff_cols += [c for c, x, y in zip(cols[nk:], a[nk:], b[nk:]) if not tol(x, y)]
            if diff_cols and all(items.get(c, ("", False))[1] for c in diff_cols):
                key = "dp=inexact-without-noise/distinct-aggregate-not-deduplicated/%s" % items[[c for c in cols[nk:] if c in diff_cols][0]][0]
            if info.get("clamp"):
                up = info["sql"].upper()
                key = "dp=inexact-without-noise/result-clamped-to-declared-range/%s" % ("outer-join" if any(k in up for k in ("LEFT JOIN", "RIGHT JOIN", "FULL JOIN")) else "other")
            ck.violation(key, "`%s` (%s) with the noise draw neutralised: %s; D = %s" % (info["sql"], info["pu"], problems[0], shown),
                         dict(sql=info["sql"], pu=info["pu"], db=shown, dp_rows=dpp, original_rows=orp))
        else:
            ck.inconclusive("exactness counterexample did not reproduce for `%s` (%s) on %s: dp %s vs original %s" % (info["sql"], info["pu"], shown, dpp, orp))
    if n_w == 0:
        ck.inconclusive("no witness is satisfiable: vacuous run")
    cov = dict(
        exploration=getattr(ck, "budget", None), programs=stats["programs"], disagreements_checked=disagreements, refused_by_rewriter=stats["refused"], skipped_unsupported=stats["unsupported"], skipped_key_release=stats["tau_filtered"],
        layouts=len(lays), bounds=dict(rows_per_table=K, outside=["more than %d rows per table / per unit" % K, "queries whose keys are released by thresholding (C04)", "float rounding (reals)"]),
        evaluations=len(queries), distinct_nontrivial=len(set(q["script"] for q in queries)),
    )
    return ck.finish(cov, assumptions=["noise neutralised structurally: every sigma * <Random-dependent> product replaced by 0", "DpParameters with multiplicity share 1: the multiplicity estimate min(100, size * share) equals the table size bound K, so a unit owning all K rows stays within the multiplicity the clip bound allows",
                                       "lib/symrel.py semantics over reals; SQLite replay with RANDOM() = 0.25 (cos(pi/2) = 0) and tolerance 1e-6"])


if __name__ == "__main__":
    sys.exit(main())
