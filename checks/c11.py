#!/usr/bin/env python3-vt
"""C11 - data-type lattice operations soundly over-approximate set operations.

K  Kani harnesses over the real compiled Intervals<i64> (kani/src/lib.rs): union_interval / intersection_interval exact
   from an arbitrary valid state of <= 2 intervals (one inductive step), capacity crossing loses no point, union of
   two sets, into_interval is the hull; representation invariant re-established.
M  composition lemmas: union, intersection, is_subset_of, is_superset_of, contains are translated from their MIR with
   concrete-length / symbolic-content operands, the leaf operations replaced by the contracts K proves; the solver
   checks exactness / soundness at an arbitrary point.
G  DataType level: type pairs on a boundary grid (Boolean / Integer / Float, Optional wrappers, Null / Unit / Any,
   small Structs) are pushed through the real is_subset_of / super_union / super_intersection; the solver searches the
   whole of A (resp. A, B; A and B) for a value outside the result, conversions taken from the MIR-translated
   injection kernels.  Value::data_type() contains the value: enumerated boundary values (reported as enumeration).
Counterexamples are replayed: Kani failures by native concrete playback, M/G models through the real API (driver).
"""
import os, sys, re, json, itertools
sys.path.insert(0, os.path.join(os.path.dirname(os.path.abspath(__file__)), "..", "lib"))
import mir, smt, kern, driver, absint, dtsem, kani_run
from common import Check, seed
from smt import land, lor, lnot

PID = "C11"
I64_MIN, I64_MAX = -(1 << 63), (1 << 63) - 1
P53 = 1 << 53
QUICK_HARNESSES = ["union_interval_exact_0", "union_interval_exact_1", "union_interval_exact_2", "intersection_interval_exact_0", "intersection_interval_exact_1",
                   "intersection_interval_exact_2", "into_interval_is_hull_2", "union_interval_crossing_1_cap2"]


def main():
    tier = sys.argv[1] if len(sys.argv) > 1 else "quick"
    ck = Check(PID, tier, "model_checking")
    tq = 30.0 if tier == "quick" else 120.0
    driver.build()
    path, msecs = mir.dump_mir()
    fns = mir.parse_mir(path)

    # ------------------------------------------------------------------ K: start Kani in the background
    import threading
    kres = {}

    def run_kani():
        ok, secs, out = kani_run.build()
        kres["build"] = (ok, secs, out)
        if not ok:
            return
        hs = QUICK_HARNESSES if tier == "quick" else kani_run.list_harnesses()
        kres["results"] = kani_run.run_many(hs, parallel=6, timeout_s=600 if tier == "quick" else 2400, mem_gb=12)

    kt = threading.Thread(target=run_kani)
    kt.start()

    queries, meta = [], {}
    # ------------------------------------------------------------------ M: composition lemmas
    PFX = [n for n in fns if re.fullmatch(r"intervals::<impl at src/data_type/intervals\.rs:\d+:\d+: \d+:\d+>::is_subset_of", n)]
    if not PFX:
        ck.inconclusive("Intervals::is_subset_of not found in the MIR dump")
    P = PFX[0][:-len("is_subset_of")] if PFX else ""
    maxn = 2 if tier == "quick" else 3
    m_nt = {}
    for meth in ("union", "intersection", "is_subset_of", "is_superset_of", "contains"):
        sizes = [(a, 0) for a in range(0, maxn + 1)] if meth == "contains" else [(a, b) for a in range(0, maxn + 1) for b in range(0, maxn + 1)]
        for na, nb in sizes:
            enc = mir.Enc("math")
            v = enc.new("i64", "v")
            inline = {meth} | ({"is_subset_of", "is_superset_of"} if meth in ("contains", "is_superset_of") else set())
            tr = mir.Translator(fns, enc, stubs=absint.stubs(enc, v, inline=inline), inline_depth=6)
            A, ca = absint.make_intervals(enc, "a", na)
            cons = list(ca)
            names = []
            if meth == "contains":
                x = enc.new("i64", "x")
                args = [A, mir.V("i64", x)]
            else:
                B, cb = absint.make_intervals(enc, "b", nb)
                cons += cb
                args = [A, B]
            try:
                val, panic = tr.translate_fn(P + meth, args)
            except mir.NotTranslatable as ex:
                m_nt[meth] = str(ex)
                break
            mA = absint.concrete_mem(A, v)
            if meth in ("union", "intersection"):
                mB = absint.concrete_mem(B, v)
                got = absint.concrete_mem(val, v)
                want = land([mA, mB]) if meth == "intersection" else lor([mA, mB])
                # over-approximation is what the property requires; exactness below capacity is checked too
                bad = lor([panic, land([want, lnot(got)]), land([got, lnot(want)])])
            elif meth == "is_subset_of":
                bad = lor([panic, land([val.t, mA, lnot(absint.concrete_mem(B, v))])])
            elif meth == "is_superset_of":
                bad = lor([panic, land([val.t, absint.concrete_mem(B, v), lnot(mA)])])
            else:
                cons.append("(= %s %s)" % (v, x))
                # soundness of a positive answer (the == contract is one-directional, so completeness is not derivable here;
                # `contains` answering true on members is checked by K's into_interval / G's value_type enumeration)
                bad = lor([panic, land([val.t, lnot(mA)])])
            syms = [t.split()[1] for t in enc.decls if t.startswith("(declare-const")]
            qid = "M/%s/%dx%d" % (meth, na, nb)
            queries.append(dict(id=qid, script="\n".join(enc.decls + ["(assert %s)" % c for c in cons + enc.side] + ["(assert %s)" % bad]), values=syms))
            meta[qid] = dict(kind="M", meth=meth, na=na, nb=nb)
            if na == maxn and nb == (0 if meth == "contains" else maxn):
                w = val.t if meth in ("is_subset_of", "is_superset_of", "contains") else absint.concrete_mem(val, v)
                queries.append(dict(id="W/" + qid, script="\n".join(enc.decls + ["(assert %s)" % c for c in cons + enc.side] + ["(assert %s)" % w]), values=[]))
                meta["W/" + qid] = dict(kind="witness")
    for meth, why in m_nt.items():
        ck.inconclusive("Intervals::%s is no longer translatable for the composition lemma: %s" % (meth, why))

    # ------------------------------------------------------------------ G: DataType-level grid
    T = driver
    ints = [T.t_int((I64_MIN, I64_MAX)), T.t_int((0, 10)), T.t_int((0, 1)), T.t_int((5, 5)), T.t_int((-3, -1), (2, 4)), T.t_int((0, 0), (10, 10)), T.t_int((P53, P53 + 2)), T.t_int((I64_MIN, -1)), T.t_int((3, 20))]
    floats = [T.t_float((-1.7976931348623157e308, 1.7976931348623157e308)), T.t_float((0.0, 10.0)), T.t_float((0.0, 0.0), (10.0, 10.0)), T.t_float((-1.5, 2.5)), T.t_float((5.0, 5.0)),
              T.t_float((0.0, 0.0), (1.0, 1.0)), T.t_float((float(P53), float(P53) + 2)), T.t_float((0.5, 0.5))]
    bools = [T.t_bool((False, True)), T.t_bool((True, True)), T.t_bool((False, False))]
    if tier == "quick":
        ints, floats = ints[:7], floats[:6]
    scal = ints + floats + bools
    opts = [T.t_opt(t) for t in (ints[1], ints[4], floats[1], bools[0])]
    structs = [T.t_struct([("x", ints[1]), ("y", floats[1])]), T.t_struct([("x", ints[4]), ("y", floats[3])]), T.t_struct([("x", ints[1]), ("y", T.t_opt(floats[1]))]),
               T.t_struct([("x", ints[1])]), T.t_struct([("x", ints[1]), ("z", bools[0])])]
    specials = [{"t": "Null"}, {"t": "Unit"}, {"t": "Any"}]
    pairs = [(a, b) for a in scal for b in scal] + [(a, b) for a in scal[:12] + opts for b in opts] + [(a, b) for a in opts for b in scal[:12]]
    pairs += [(a, b) for a in structs for b in structs] + [(a, b) for a in specials for b in [ints[1], opts[0], structs[0]] + specials] + [(a, b) for b in specials for a in [ints[1], opts[0], structs[0]]]
    # enumerations: sets of (label, code) pairs; same labels with other codes, sub-lists, disjoint labels, wrapped in Optional
    mk_enum = lambda *vals: {"t": "Enum", "vals": [[l_, str(c_)] for l_, c_ in vals]}
    enums = [mk_enum(("low", 0), ("high", 1)), mk_enum(("high", 0), ("low", 1)), mk_enum(("low", 0)), mk_enum(("low", 0), ("mid", 1), ("high", 2)), mk_enum(("a", 5), ("b", 7)), mk_enum(("low", 0), ("high", 2))]
    enums_o = [T.t_opt(enums[0]), T.t_opt(enums[1])]
    pairs += [(a, b) for a in enums + enums_o for b in enums + enums_o]
    # composite variants with an element type and a size: lists and sets (values of length <= 2 are symbolic)
    mk_seq = lambda kind, of, sz: {"t": kind, "of": of, "size": [[str(lo), str(hi)] for lo, hi in sz]}
    elem = [T.t_int((0, 5)), T.t_int((10, 20)), T.t_int((3, 12)), T.t_int((-3, -1), (2, 4)), T.t_float((0.0, 10.0))]
    sizes = [[(0, 2)], [(1, 2)], [(0, 0), (2, 2)], [(0, 1)]]
    for kind in ("List", "Set"):
        seqs = [mk_seq(kind, e, sz) for e in (elem if tier != "quick" else elem[:4]) for sz in (sizes if tier != "quick" else sizes[:2] + sizes[3:])]
        pairs += [(a, b) for a in seqs for b in seqs]
    jobs = [dict(op="lattice", a=a, b=b) for a, b in pairs]
    answers = driver.parallel_batch(jobs, workers=12, timeout=30.0)
    sem = dtsem.Sem(fns)
    n_grid = 0
    struct_union_diff_fields = lambda a, b: a["t"] == "Struct" and b["t"] == "Struct" and [f for f, _ in a["fields"]] != [f for f, _ in b["fields"]]
    for gi, ((a, b), ans) in enumerate(zip(pairs, answers)):
        if "timeout" in ans or "crash" in ans:
            ck.inconclusive("driver failed on lattice(%s, %s)" % (json.dumps(a), json.dumps(b)))
            continue
        for k in ("a_sub_b", "b_sub_a", "union", "inter"):
            if isinstance(ans.get(k), dict) and "panic" in ans[k]:
                ck.violation("lattice=panic/%s/%s-%s" % (k, a["t"], b["t"]), "%s of %s and %s panics: %s" % (k, json.dumps(a), json.dumps(b), ans[k]["panic"]), dict(a=a, b=b))
        n_grid += 1

        def q(kind, side, T_src, extra_member, target, what):
            """exists a value of T_src's shape in T_src (and extra_member) outside target"""
            try:
                sem.decls = []
                val = sem.fresh(T_src, "g")
                pre = [sem.member(T_src, val, strict=True)] + [sem.member(t, val) for t in extra_member]
                neg = lnot(sem.member(target, val))
            except ValueError:
                return
            qid = "G/%d/%s/%s" % (gi, kind, side)
            queries.append(dict(id=qid, script="\n".join(sem.decls + ["(assert %s)" % c for c in pre + [neg]]), values=sem.names(val)))
            meta[qid] = dict(kind="G", op=kind, side=side, a=a, b=b, src=T_src, target=target, val=val, what=what, diff_fields=struct_union_diff_fields(a, b))

        if ans.get("a_sub_b") is True:
            q("subset", "a", a, [], b, "the library says A is a subset of B")
        if ans.get("b_sub_a") is True:
            q("subset", "b", b, [], a, "the library says B is a subset of A")
        u = ans.get("union", {})
        if isinstance(u, dict) and "ok" in u:
            q("union", "a", a, [], u["ok"], "super_union(A, B)")
            q("union", "b", b, [], u["ok"], "super_union(A, B)")
        i = ans.get("inter", {})
        if isinstance(i, dict) and "ok" in i:
            q("inter", "a", a, [b], i["ok"], "super_intersection(A, B)")
            q("inter", "b", b, [a], i["ok"], "super_intersection(A, B)")
        if gi % 40 == 0:
            ck.sample(dict(a=json.dumps(a), b=json.dumps(b), a_sub_b=ans.get("a_sub_b"), union=(u.get("s") if isinstance(u, dict) else None), inter=(i.get("s") if isinstance(i, dict) else None)))

    results = smt.solve_all(queries, tq, workers=10, progress=2000)
    ck.count(results)
    d = driver.Driver(30.0)
    replayed = confirmed = 0
    for r in results:
        info = meta[r["id"]]
        if info["kind"] == "witness":
            if r["status"] != "sat":
                ck.inconclusive("vacuity witness %s is %s" % (r["id"], r["status"]))
            continue
        if r["status"] != "sat":
            continue
        replayed += 1
        if info["kind"] == "M":
            mv = {k: int(v) for k, v in r["model"].items() if isinstance(v, int)}
            getiv = lambda nm, n: [(mv["%s_lo%d!%s" % (nm, i, k)], mv2) for i in range(n) for k, mv2 in []]
            # rebuild operands from the symbol names a_lo0!k ...
            def operand(nm, n):
                out = []
                for i in range(n):
                    lo = [v for k, v in mv.items() if k.startswith("%s_lo%d!" % (nm, i))][0]
                    hi = [v for k, v in mv.items() if k.startswith("%s_hi%d!" % (nm, i))][0]
                    out.append((lo, hi))
                return out
            A = operand("a", info["na"])
            B = operand("b", info["nb"]) if info["meth"] != "contains" else []
            v = [val for k, val in mv.items() if k.startswith("v!")][0]
            clampi = lambda x: max(I64_MIN, min(I64_MAX, x))
            ta = driver.t_int(*[(clampi(l), clampi(h)) for l, h in A]) if A else {"t": "Integer", "iv": []}
            tb = driver.t_int(*[(clampi(l), clampi(h)) for l, h in B]) if B else {"t": "Integer", "iv": []}
            la = d.call(dict(op="lattice", a=ta, b=tb))
            ca = d.call(dict(op="contains", dt=ta, values=[driver.v_int(clampi(v))])).get("ok", [None])[0]
            cb = d.call(dict(op="contains", dt=tb, values=[driver.v_int(clampi(v))])).get("ok", [None])[0]
            inA = any(l <= v <= h for l, h in A)
            inB = any(l <= v <= h for l, h in B)
            meth = info["meth"]
            ok, what = False, ""
            if meth == "is_subset_of":
                ok = la.get("a_sub_b") is True and inA and not inB
                what = "Integer %s is reported a subset of %s although %d is in the first and not in the second" % (A, B, v)
            elif meth == "is_superset_of":
                ok = la.get("b_sub_a") is True and inB and not inA
                what = "Integer %s is reported a superset of %s although %d is in the second and not in the first" % (A, B, v)
            elif meth == "contains":
                ok = ca is True and not inA
                what = "Integer %s .contains(%d) answers %s" % (A, v, ca)
            else:
                key = "union" if meth == "union" else "inter"
                res = la.get(key, {})
                if "ok" in res:
                    cr = d.call(dict(op="contains", dt=res["ok"], values=[driver.v_int(clampi(v))])).get("ok", [None])[0]
                    want = (inA or inB) if meth == "union" else (inA and inB)
                    ok = (want and cr is False)  # losing a point breaks the property; an extra point is only imprecision
                    what = "%s of Integer %s and %s = %s does not contain %d" % (meth, A, B, res.get("s"), v)
                    if not ok and cr is True and not want:
                        ck.note("%s of %s and %s contains the extra point %d (imprecise below capacity, not unsound)" % (meth, A, B, v))
                        continue
            if ok:
                confirmed += 1
                ck.violation("intervals=%s/unsound" % meth, what, dict(query=r["id"], A=A, B=B, v=v))
            else:
                ck.inconclusive("composition-lemma counterexample %s did not reproduce on the real Intervals: A=%s B=%s v=%s (lattice=%s)" % (r["id"], A, B, v, json.dumps(la)[:150]))
            continue
        # ---- G
        vj = sem.to_json(info["val"], r["model"])
        src, target = info["src"], info["target"]
        in_src = d.call(dict(op="contains", dt=src, values=[vj])).get("ok", [None])[0]
        conv = d.call(dict(op="inject", **{"from": src, "to": target}, values=[vj]))
        cval = (conv.get("values") or [{}])[0]
        if "ok" in cval:
            in_t = d.call(dict(op="contains", dt=target, values=[cval["ok"]])).get("ok", [None])[0]
        else:
            in_t = d.call(dict(op="contains", dt=target, values=[vj])).get("ok", [None])[0]
        ok = in_src is True and in_t is False
        tfields = [f for f, _ in target.get("fields", [])] if target.get("t") == "Struct" else None
        sfields = [f for f, _ in src.get("fields", [])] if src.get("t") == "Struct" else []
        if info["op"] == "union" and tfields is not None and any(f not in sfields for f in tfields):
            key = "lattice=union/struct-different-field-sets"
        else:
            key = "lattice=%s/%s-%s" % (info["op"], info["a"]["t"], info["b"]["t"])
        what = "%s: the value %s of %s is not in %s (A=%s, B=%s)" % (info["what"], json.dumps(vj), json.dumps(src), json.dumps(target), json.dumps(info["a"]), json.dumps(info["b"]))
        if ok:
            confirmed += 1
            ck.violation(key, what, dict(query=r["id"], value=vj, a=info["a"], b=info["b"], target=target))
        else:
            ck.inconclusive("grid counterexample %s did not reproduce (in source: %s, converted in target: %s): %s" % (r["id"], in_src, in_t, what[:300]))

    # ---- literal reading of `v in B` for cross-variant pairs: fixed demonstrations through the real API
    demos = [(driver.t_int((0, 5)), driver.t_float((0.0, 5.0)), driver.v_int(3)), (driver.t_int((0, 5)), driver.t_opt(driver.t_int((0, 5))), driver.v_int(3)),
             (driver.t_bool((False, True)), driver.t_int((0, 5)), driver.v_bool(True))]
    for a, b, v in demos:
        la = d.call(dict(op="lattice", a=a, b=b))
        ina = d.call(dict(op="contains", dt=a, values=[v])).get("ok", [None])[0]
        inb = d.call(dict(op="contains", dt=b, values=[v])).get("ok", [None])[0]
        if la.get("a_sub_b") is True and ina is True and inb is False:
            ck.violation("lattice=subset/literal-contains-cross-variant", "%s.is_subset_of(%s) is true and the first contains %s, but `contains` of the second answers false (it converts the type to the value's variant, not the value to the type's)" % (
                json.dumps(a), json.dumps(b), json.dumps(v)), dict(a=a, b=b, v=v))
    # ---- Value::data_type() contains the value (enumerated boundary values)
    vals = [driver.v_int(x) for x in (I64_MIN, -1, 0, 1, P53 + 1, I64_MAX)] + [driver.v_float(x) for x in (-1.7976931348623157e308, -0.0, 0.0, 0.5, float(P53), 1e308)] + \
           [driver.v_bool(True), driver.v_bool(False), driver.v_none(), driver.v_some(driver.v_int(3)), driver.v_struct([("x", driver.v_int(1)), ("y", driver.v_some(driver.v_float(2.5)))]), {"t": "Text", "v": "a'b"}, {"t": "Unit"}]
    n_vt = 0
    for v in vals:
        a = d.call(dict(op="value_type", v=v))
        n_vt += 1
        if "panic" in a or a.get("contains") is not True:
            ck.violation("value=own-type-does-not-contain", "Value %s: data_type() = %s does not contain it (%s)" % (json.dumps(v), json.dumps(a.get("ok"))[:200], a.get("panic", "")), dict(v=v))
    d.close()

    # ------------------------------------------------------------------ K results
    kt.join()
    kb = kres.get("build")
    kani_cov = {}
    if not kb or not kb[0]:
        ck.inconclusive("the Kani harness crate does not build against /repo: %s" % ((kb[2][-300:] if kb else "no result")))
    else:
        for r in kres.get("results", []):
            kani_cov[r["harness"]] = dict(verdict=r["verdict"], seconds=r["verification_time_s"], covers_satisfied=r["covers_satisfied"], why=r["why"])
            if r["verdict"] == "success":
                if r["covers_unsatisfiable"]:
                    ck.inconclusive("Kani harness %s: a cover! witness is unsatisfiable (vacuous harness)" % r["harness"])
            elif r["verdict"] == "failed":
                pb = kani_run.playback(r["harness"])
                if pb.get("reproduced"):
                    op = re.sub(r"_(exact|crossing|sound|agrees|is_hull).*$", "", r["harness"])
                    ck.violation("intervals=%s/kani" % op, "Kani harness %s fails (%s); native replay: %s" % (r["harness"], r["why"], pb["detail"]), dict(harness=r["harness"], log=r["log"], playback=pb))
                else:
                    ck.inconclusive("Kani harness %s fails (%s) but the counterexample does not reproduce natively: %s" % (r["harness"], r["why"], pb.get("detail")))
            else:
                ck.inconclusive("Kani harness %s is inconclusive: %s" % (r["harness"], r["why"]))
    nM = sum(1 for q in queries if q["id"].startswith("M/"))
    nG = sum(1 for q in queries if q["id"].startswith("G/"))
    cov = dict(
        states=len(queries) + len(kani_cov), transitions=len(queries) + len(kani_cov), traces_validated_against_impl=replayed + n_vt,
        kani=kani_cov, kani_bounds=dict(pre_state_intervals="<= 2 (concrete length, symbolic bounds)", capacity="128, and 2 / 3 through the verif hook for the crossing path", unwind=5,
                                        unwinding_assertions="on (Kani default): a too small bound is reported, not truncated"),
        composition_lemmas=nM, composition_bounds="operands of 0..%d intervals each; leaf contracts (union_interval, intersection_interval exact; ==; empty; from_value) as proved by K for pre-states of <= 2 intervals and assumed beyond" % maxn,
        grid_pairs=n_grid, grid_queries=nG,
        functions_encoded=[P + m for m in ("union", "intersection", "is_subset_of", "is_superset_of", "contains")] + sorted(k.name for k in sem.K.values()),
        outside=["Text / Bytes / Date / Time / Duration / Id / Union / Array / Function variants; lists and sets only with values of length <= 2 over integer / float elements", "text ordering",
                 "Intervals<f64>, Intervals<String> instantiations (generic code, only the i64 instantiation is run by Kani)", "interval sets with more than %d intervals" % maxn],
        counterexamples_replayed=replayed, confirmed=confirmed, values_checked_against_own_type=n_vt,
        evaluations=len(queries) + len(kani_cov), distinct_nontrivial=len(set(q["script"] for q in queries)),
    )
    return ck.finish(cov, assumptions=["Kani / CBMC model of the compiled crate (dev profile, --cfg qrlew_verif raw constructor)", "MIR translation + combinator and contract stubs (lib/mir.py, lib/hof.py, lib/absint.py)",
                                       "cross-variant membership uses the library's injection semantics (value converted into the type's variant); the literal reading is reported as a known finding"])


if __name__ == "__main__":
    sys.exit(main())
