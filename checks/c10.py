#!/usr/bin/env python3-vt
"""C10 - WHERE / ON narrowing never drops a row that satisfies the predicate.

Struct types T (grid: integer / float intervals, value sets, unbounded and boundary ranges, optional columns, booleans)
and predicates p (comparisons column-vs-literal in both orders, column-vs-column, =, <>, IN, IS NULL, AND / OR / NOT
nests, sub-terms the narrowing does not understand) are generated; the real `T.filter(&p)` is run (driver) giving T'.
The solver is asked for a row r in T (all 2^64 .. 2^192 rows, NULLs included) on which p evaluates to TRUE and that is
not in T'. p is evaluated with the MIR-translated kernels the library itself uses (engine M) under SQL NULL semantics.
Counterexamples are replayed: the predicate rendered by the library to SQL is evaluated on the row by SQLite, membership
in T' is asked to the real `DataType::contains`.
ON-clause narrowing goes through the same filter code; join kinds are exercised by C07.
"""
import os, sys, json, random, sqlite3, re
sys.path.insert(0, os.path.join(os.path.dirname(os.path.abspath(__file__)), "..", "lib"))
import mir, smt, kern, driver, gen, exprsem, dtsem
from common import Check, seed
from smt import land, lor, lnot

PID = "C10"
TYS = {"Integer": "i64", "Float": "f64", "Boolean": "bool"}
SORT = {"bool": "Bool", "i64": "(_ BitVec 64)", "f64": "(_ FloatingPoint 11 53)"}


def fixed_cases():
    """shapes worth keeping on every run (seeded regressions, reversed operands, disjunctions with an opaque side)"""
    T = driver.t_struct([("a", driver.t_float((-10.0, 10.0))), ("b", driver.t_int((0, 3)))])
    c, v, f = gen.col, gen.val, gen.fn
    i, fl = driver.v_int, driver.v_float
    TB = driver.t_struct([("flag", driver.t_bool((False, False), (True, True))), ("a", driver.t_float((-10.0, 10.0)))])
    TB2 = driver.t_struct([("flag", driver.t_bool((False, True))), ("g", driver.t_opt(driver.t_bool((False, False), (True, True)))), ("a", driver.t_int((-5, 5)))])
    return [
        # a bare boolean column as predicate (explicit value set and interval), alone and under AND / OR / NOT
        (TB, c("flag")), (TB, f("And", c("flag"), f("Gt", c("a"), v(i(0))))), (TB, f("Or", c("flag"), f("Gt", c("a"), v(i(0))))), (TB, f("Not", c("flag"))),
        (TB2, c("flag")), (TB2, f("Or", c("g"), f("Lt", c("a"), v(i(0))))), (TB2, f("And", f("Not", c("g")), c("flag"))),
        (T, f("Or", f("And", f("Gt", c("a"), v(i(5))), f("Lt", c("b"), v(i(3)))), f("Gt", c("a"), v(i(0))))),
        (T, f("Or", f("Gt", c("a"), v(i(5))), f("Not", f("Lt", c("b"), v(i(3)))))),
        (T, f("Or", f("Gt", c("a"), v(i(5))), v(driver.v_bool(False)))),
        (T, f("Lt", v(i(2)), c("a"))),
        (T, f("And", f("GtEq", v(fl(2.5)), c("a")), f("NotEq", c("b"), v(i(1))))),
        (T, f("Gt", c("a"), c("b"))),
        (driver.t_struct([("a", driver.t_opt(driver.t_int((0, 10)))), ("b", driver.t_int((0, 10)))]), f("Or", f("IsNull", c("a")), f("Gt", c("a"), c("b")))),
        (driver.t_struct([("a", driver.t_int((0, 10))), ("b", driver.t_int((0, 10)))]), f("Or", f("Gt", f("Plus", c("a"), c("b")), v(i(12))), f("Lt", c("a"), v(i(2))))),
    ]


def main():
    tier = sys.argv[1] if len(sys.argv) > 1 else "quick"
    ck = Check(PID, tier, "model_checking")
    tq = 20.0 if tier == "quick" else 90.0
    driver.build()
    path, _ = mir.dump_mir()
    fns = mir.parse_mir(path)
    rnd = random.Random(seed() * 7919 + 10)
    n = 350 if tier == "quick" else 5000
    cases = fixed_cases()
    while len(cases) < n:
        T = gen.struct_type(rnd)
        cases.append((T, gen.predicate(rnd, T, depth=rnd.choice([1, 2, 2, 3]))))
    answers = driver.parallel_batch([dict(op="filter", dt=T, pred=p) for T, p in cases], workers=12, timeout=30.0)
    sqls = driver.parallel_batch([dict(op="expr_sql", expr=p) for T, p in cases], workers=8, timeout=30.0)
    queries, meta = [], {}
    n_unsupported = n_prog = 0
    why = {}
    sem = dtsem.Sem(fns)
    for ci, ((T, p), ans) in enumerate(zip(cases, answers)):
        if "panic" in ans:
            ck.violation("filter=panic", "filter(%s) on %s panics: %s" % (gen.show(p), json.dumps(T)[:200], ans["panic"]), dict(T=T, pred=p))
            continue
        if "ok" not in ans:
            ck.inconclusive("driver failed on filter %d: %s" % (ci, json.dumps(ans)[:200]))
            continue
        T2 = ans["ok"]
        bank = exprsem.Bank(fns, "bv")
        ev = exprsem.Evaluator(bank, "sql")
        decls, env, pre, names = [], {}, [], []
        rowvals = {}
        for f, ft in T["fields"]:
            b = gen.base(ft)
            ty = TYS[b["t"]]
            v = "r_%s" % f
            decls.append("(declare-const %s %s)" % (v, SORT[ty]))
            names.append(v)
            if ft["t"] == "Optional":
                nn = "r_%s_null" % f
                decls.append("(declare-const %s Bool)" % nn)
                names.append(nn)
            else:
                nn = "false"
            env[(f,)] = exprsem.Cell(nn, ty, v, ft["t"] == "Optional")
            mem = kern.member(b, v)
            if ty == "f64":
                mem = land([mem, "(not (fp.isNaN %s))" % v])
            pre.append(lor([nn, mem]) if nn != "false" else mem)
            rowvals[f] = (nn, ty, v)
        try:
            c = ev.eval(p, env)
        except exprsem.Unsupported as ex:
            n_unsupported += 1
            why[str(ex)[:40]] = why.get(str(ex)[:40], 0) + 1
            continue
        if c.ty != "bool":
            n_unsupported += 1
            continue
        n_prog += 1
        holds = land([lnot(c.n), c.t])
        # r not in T'
        if T2["t"] != "Struct":
            notin = "true" if T2["t"] == "Null" else None
            if notin is None:
                ck.inconclusive("filtered type is not a struct: %s" % json.dumps(T2)[:120])
                continue
        else:
            f2 = dict((f, t) for f, t in T2["fields"])
            conj = []
            sem.decls = []
            VAR = {"i64": "Integer", "f64": "Float", "bool": "Boolean"}
            for f, ft in T["fields"]:
                nn, ty, v = rowvals[f]
                t2 = f2.get(f)
                if t2 is None:
                    conj.append("false")
                    continue
                sv = ("s", VAR[ty], v)
                valx = ("opt", nn, sv) if nn != "false" else sv
                try:
                    # a nullable column narrowed to a non-optional type: NULL is excluded, a value is converted (injection semantics)
                    if nn != "false" and t2["t"] != "Optional":
                        conj.append(land([lnot(nn), sem.member(t2, sv)]))
                    else:
                        conj.append(sem.member(t2, valx))
                except ValueError:
                    conj.append("true")
            decls = decls + sem.decls
            notin = lnot(land(conj))
        script = "\n".join(decls + ev.declarations() + ["(assert %s)" % x for x in pre + ev.side_constraints() + [holds, notin]])
        qid = "F/%d" % ci
        queries.append(dict(id=qid, script=script, values=names))
        meta[qid] = dict(T=T, p=p, T2=T2, rowvals=rowvals, sql=sqls[ci].get("ok"), s2=ans.get("s"))
        if ci % 25 == 0:
            # vacuity witness: some row of T satisfies the predicate at all
            queries.append(dict(id="W/%d" % ci, script="\n".join(decls + ev.declarations() + ["(assert %s)" % x for x in pre + ev.side_constraints() + [holds]]), values=[]))
            meta["W/%d" % ci] = dict(witness=True)
        if ci < 6 or ci % 60 == 0:
            ck.sample(dict(type=json.dumps(T)[:300], predicate=gen.show(p), narrowed=ans.get("s")))
    # ------------------------------------------------------------------ K: the per-type variants of the comparison kernels
    # narrowing uses least / greatest / the comparisons on every ordered type; dates, times and strings are opaque to the
    # encoder, but their kernels only call Ord / PartialOrd: read as points of an integer line (math mode), every variant
    # must compute the same function as the integer variant, for all pairs of arguments
    n_variant = 0
    for F in ("Gt", "Lt", "GtEq", "LtEq", "Least", "Greatest"):
        bankm = exprsem.Bank(fns, "math")
        base = bankm.kernel_name(F, 0)
        if base is None:
            ck.inconclusive("integer kernel of %s not found" % F)
            continue
        try:
            k0 = mir.kernel(fns, base, "math", arg_names=["x", "y"])
        except mir.NotTranslatable as ex:
            ck.inconclusive("integer kernel of %s not translatable: %s" % (F, ex))
            continue
        for idx in range(1, 12):
            name = bankm.kernel_name(F, idx)
            if name is None:
                break
            tys = [t for _, t in fns[name].args[1:]]
            if not tys or any(t not in mir.ORD_TYPES for t in tys):
                continue
            try:
                kv = mir.kernel(fns, name, "math", arg_names=["x", "y"])
            except mir.NotTranslatable as ex:
                ck.inconclusive("%s variant %s is not translatable: %s" % (F, name, ex))
                continue
            decls = ["(declare-const x Int)", "(declare-const y Int)"] + [d_ for d_ in kv["decls"] + k0["decls"] if not re.match(r"\(declare-const (x|y) ", d_)]
            rng = ["(<= 1 x)", "(<= x 80000)", "(<= 1 y)", "(<= y 80000)"]
            qid = "K/%s/%s" % (F, tys[0].split("::")[-1])
            queries.append(dict(id=qid, script="\n".join(decls + ["(assert %s)" % a for a in rng + kv["side"] + k0["side"] + ["(not (= %s %s))" % (kv["ret"].t, k0["ret"].t)]]), values=["x", "y"], solvers=["z3new", "cvc5"]))
            meta[qid] = dict(variant=True, F=F, ty=tys[0].split("::")[-1], kernel=name)
            n_variant += 1
    if n_variant == 0:
        ck.inconclusive("no ordered-type variant of the comparison kernels was found")

    results = smt.solve_all(queries, tq, workers=14, progress=2000)
    ck.count(results)
    d = driver.Driver(30.0)
    con = sqlite3.connect(":memory:")
    n_w_sat = replayed = 0
    for r in results:
        info = meta[r["id"]]
        if info.get("witness"):
            n_w_sat += r["status"] == "sat"
            continue
        if r["status"] != "sat":
            continue
        replayed += 1
        if info.get("variant"):
            x, y = int(r["model"]["x"]), int(r["model"]["y"])
            mkv = {"NaiveDate": lambda v: {"t": "Date", "v": str(730000 + v)}, "NaiveTime": lambda v: {"t": "Time", "v": str(v * 1000000000)},
                   "NaiveDateTime": lambda v: {"t": "DateTime", "v": str((730000 * 86400 + v) * 1000000000)}, "String": lambda v: {"t": "Text", "v": "s%06d" % v}}[info["ty"]]
            rv = d.call(dict(op="fn_value", f=info["F"], args=[mkv(x), mkv(y)]))
            exp = {"Gt": x > y, "Lt": x < y, "GtEq": x >= y, "LtEq": x <= y, "Least": min(x, y), "Greatest": max(x, y)}[info["F"]]
            got = rv.get("ok")
            if got is not None and got.get("t") == "Optional":
                got = got.get("v")
            if got is None:
                ck.inconclusive("variant counterexample %s: fn_value failed: %s" % (r["id"], json.dumps(rv)[:200]))
                continue
            good = (got.get("v") == exp) if isinstance(exp, bool) else (json.dumps(got, sort_keys=True) == json.dumps(mkv(exp), sort_keys=True))
            if not good:
                ck.violation("kernel-variant=%s/%s/differs-from-integer-variant" % (info["F"], info["ty"]), "%s on %s values: %s(%s, %s) = %s, the order of the type gives %s (narrowing of comparisons on that type then keeps the wrong side)" % (
                    info["F"], info["ty"], info["F"], mkv(x)["v"], mkv(y)["v"], rv.get("s") or json.dumps(got), mkv(exp)["v"] if not isinstance(exp, bool) else exp), dict(F=info["F"], ty=info["ty"], x=x, y=y))
            else:
                ck.inconclusive("variant counterexample %s did not reproduce: %s(%d, %d) = %s" % (r["id"], info["F"], x, y, json.dumps(got)))
            continue
        T, p, T2 = info["T"], info["p"], info["T2"]
        row, sqlrow = {}, {}
        for f, ft in T["fields"]:
            nn, ty, v = info["rowvals"][f]
            isnull = (nn != "false") and r["model"].get(nn) is True
            pv = kern.py_of_model(ty, r["model"][v])
            row[f] = None if isnull else (ty, pv)
            sqlrow[f] = None if isnull else (pv.to_float() if ty == "f64" else (int(pv) if ty == "i64" else int(bool(pv))))
        # 1. SQLite evaluates the library's own rendering of the predicate on the row
        sat_sql = None
        try:
            cols = ", ".join("? AS %s" % f for f, _ in T["fields"])
            q = "SELECT (%s) FROM (SELECT %s)" % (info["sql"], cols)
            sat_sql = con.execute(q, [sqlrow[f] for f, _ in T["fields"]]).fetchone()[0]
        except Exception as ex:
            sat_sql = "error: %s" % ex
        # 2. the real contains on T and T'
        def mk(Tx):
            fields = []
            for f, ft in Tx["fields"]:
                cell = row.get(f)
                if ft["t"] == "Optional":
                    fields.append([f, {"t": "Optional", "v": None if cell is None else kern.value_json(*cell)}])
                else:
                    fields.append([f, {"t": "Optional", "v": None} if cell is None else kern.value_json(*cell)])
            return {"t": "Struct", "fields": fields}
        in_T = d.call(dict(op="contains", dt=T, values=[mk(T)])).get("ok", [None])[0]
        in_T2 = d.call(dict(op="contains", dt=T2, values=[mk(T2)])).get("ok", [None])[0] if T2["t"] == "Struct" else False
        if T2["t"] == "Struct" and any(row.get(f) is None and ft["t"] != "Optional" for f, ft in T2["fields"]):
            in_T2 = False   # NULL in a column whose narrowed type is not optional (the real `contains` converts the type, not the value)
        shown = {f: (None if c is None else (c[1].to_float() if c[0] == "f64" else c[1])) for f, c in row.items()}
        if sat_sql in (1, True) and in_T is True and in_T2 is False:
            top = p["f"] if p["e"] == "Function" else p["e"]
            key = "filter=drops-satisfying-row/top=%s" % top
            has_float = any(gen.base(ft)["t"] == "Float" for _, ft in T["fields"]) or '"Float"' in json.dumps(p)
            if has_float and any(c is not None and c[0] == "i64" and abs(int(c[1])) >= (1 << 53) for c in row.values()):
                # an integer beyond 2^53 compared with a float: the narrowing converts the integer bounds to f64 and back
                # (C12's finding), the rounded set then misses values of the column
                key = "filter=drops-satisfying-row/int-to-float-rounding-beyond-2^53"
            ck.violation(key, "row %s of %s satisfies %s (SQLite: %s = 1) but is not in the narrowed type %s" % (
                shown, json.dumps(T)[:200], gen.show(p), info["sql"], info["s2"]), dict(T=T, pred=p, row=shown, narrowed=T2, sql=info["sql"]))
        else:
            has_float_ = any(gen.base(ft)["t"] == "Float" for _, ft in T["fields"]) or '"Float"' in json.dumps(p)
            if has_float_ and any(c is not None and c[0] == "i64" and abs(int(c[1])) >= (1 << 53) for c in row.values()):
                # an integer beyond 2^53 compared with a float: the encoder promotes through f64 (as Expr::value does), SQLite
                # compares exactly; the region is outside the claim (C12's rounding finding)
                ck.note("beyond 2^53 (outside the claim): row %s pred %s: sqlite=%s in_T=%s in_T'=%s" % (shown, gen.show(p), sat_sql, in_T, in_T2))
                continue
            ck.inconclusive("counterexample %s did not reproduce: row %s pred %s: sqlite=%s in_T=%s in_T'=%s" % (r["id"], shown, gen.show(p), sat_sql, in_T, in_T2))
    d.close()
    if n_w_sat == 0:
        ck.inconclusive("no sampled predicate is satisfiable on its type: vacuous run")
    cov = dict(
        states=n_prog, transitions=len(queries), traces_validated_against_impl=replayed,
        explanation="one query per (struct type, predicate): all rows of the type are symbolic (bit-vectors / doubles / NULL flags)",
        programs=n_prog, skipped_unsupported=n_unsupported, skipped_reasons=why, witnesses_satisfiable=n_w_sat,
        functions_encoded=sorted(k for k in exprsem.Bank(fns, "bv").inj.values())[:4] + ["comparison / boolean / arithmetic kernels of function.rs as instantiated per predicate"],
        bounds=dict(columns="2-3", predicate_depth="<= 3", types="boundary grid of lib/gen.py", outside=["text / date predicates on struct types (the per-type kernel variants are covered by part K)", "ON clauses per join kind (C07)", "predicates containing functions outside the supported core"]),
        evaluations=len(queries), distinct_nontrivial=len(set(q["script"] for q in queries)),
    )
    return ck.finish(cov, assumptions=["predicate truth = SQL semantics over the MIR-translated kernels (dispatch model of lib/exprsem.py); every counterexample is re-evaluated by SQLite on the SQL the library renders",
                                       "membership in the narrowed type is re-checked with the real DataType::contains"])


if __name__ == "__main__":
    sys.exit(main())
