#!/usr/bin/env python3-vt
"""C05 - privacy-unit tracking: a tracked row depends only on its own unit's data.

For each SQL program, privacy-unit definition and strategy the real `rewrite_as_privacy_unit_preserving` is run (driver)
and the relation it returns is executed symbolically (engine S) on a database D (<= K rows per table, all values and
NULLs symbolic) and on D|u: D with every protected row not owned by a symbolic unit u deleted (ownership follows the
declared foreign-key paths and is computed independently of the code under test). The solver is asked for a database and
a unit such that
   (i)  some output row has a NULL privacy-unit id or weight, or
   (ii) the bag of output rows attributed to u on D differs from the bag of output rows on D|u.
Counterexamples are replayed on SQLite (the SQL rendered by the library on D and on D|u).
"""
import os, sys, json, itertools
sys.path.insert(0, os.path.join(os.path.dirname(os.path.abspath(__file__)), "..", "lib"))
import mir, smt, kern, driver, symrel, sqlrun, exprsem, pucat
from symrel import Row, Rel, cell_eq
from common import Check, seed
from smt import land, lor, lnot

PID = "C05"
PU, PUW = "_PRIVACY_UNIT_", "_PRIVACY_UNIT_WEIGHT_"

PROGRAMS = [
    "SELECT amount, kind FROM orders WHERE amount > 0",
    "SELECT age, city FROM users",
    "SELECT amount + 1 AS a1 FROM orders WHERE kind = 1",
    "SELECT price FROM items WHERE price > 5",
    "SELECT o.amount AS amount, u.age AS age FROM orders AS o JOIN users AS u ON o.user_id = u.id",
    "SELECT o.amount AS amount, u.age AS age FROM orders AS o LEFT JOIN users AS u ON o.user_id = u.id",
    "SELECT o.amount AS amount, u.age AS age FROM users AS u LEFT JOIN orders AS o ON o.user_id = u.id",
    "SELECT o.amount AS amount, u.age AS age FROM orders AS o RIGHT JOIN users AS u ON o.user_id = u.id",
    "SELECT o.amount AS amount, u.age AS age FROM orders AS o FULL JOIN users AS u ON o.user_id = u.id",
    "SELECT a.amount AS x, b.amount AS y FROM orders AS a JOIN orders AS b ON a.kind = b.kind",
    "SELECT a.amount AS x, b.amount AS y FROM orders AS a LEFT JOIN orders AS b ON a.kind = b.kind",
    "SELECT a.amount AS x, b.age AS y FROM orders AS a JOIN users AS b ON a.kind = b.city",
    "SELECT a.amount AS x, b.age AS y FROM orders AS a LEFT JOIN users AS b ON a.kind = b.city",
    "SELECT o.amount AS amount, p.label AS label FROM orders AS o JOIN pub AS p ON o.kind = p.k",
    "SELECT o.amount AS amount, p.label AS label FROM orders AS o LEFT JOIN pub AS p ON o.kind = p.k",
    "SELECT o.amount AS amount, p.label AS label FROM pub AS p JOIN orders AS o ON o.kind = p.k",
    "SELECT o.amount AS amount, p.label AS label FROM pub AS p LEFT JOIN orders AS o ON o.kind = p.k",
    "SELECT o.amount AS amount, p.label AS label FROM orders AS o RIGHT JOIN pub AS p ON o.kind = p.k",
    "SELECT i.price AS price, o.amount AS amount FROM items AS i JOIN orders AS o ON i.order_id = o.id",
    "SELECT kind, sum(amount) AS s, count(amount) AS n FROM orders GROUP BY kind",
    "SELECT sum(amount) AS s FROM orders",
    "SELECT amount FROM orders UNION SELECT age FROM users",
    "SELECT amount FROM orders WHERE qty IS NULL",
    "SELECT amount FROM orders ORDER BY amount LIMIT 1",
    # grouping by a UNIQUE but nullable column (several NULLs form one group across units), by a key, by the unit's own column
    "SELECT tag, sum(amount) AS total FROM orders GROUP BY tag",
    "SELECT tag, count(*) AS n FROM orders WHERE amount > 0 GROUP BY tag",
    "SELECT id, sum(amount) AS total FROM orders GROUP BY id",
    "SELECT user_id, sum(amount) AS total FROM orders GROUP BY user_id",
]


def restrict(db, owned):
    """D|u: same cells, protected rows kept only when owned by u"""
    out = {}
    for path, rel in db.items():
        t = path[0]
        if t in owned:
            out[path] = Rel(rel.cols, [Row(land([r.p, o]), r.cells) for r, o in zip(rel.rows, owned[t])], rel.name)
        else:
            out[path] = rel
    return out


def count_eq(rows, x, cols, extra=None):
    terms = []
    for i, r in enumerate(rows):
        c = [r.p, land([cell_eq(r.cells[k], x.cells[k]) for k in cols])]
        if extra:
            c.append(extra[i])
        terms.append("(ite %s 1 0)" % land(c))
    return "(+ 0 %s)" % " ".join(terms) if terms else "0"


SUFFIX_PROGRAMS = ["SELECT amount FROM preorders WHERE amount > 0", "SELECT p.amount AS pa, o.amount AS oa FROM preorders AS p JOIN orders AS o ON p.user_id = o.user_id",
                   "SELECT p.amount AS pa, u.age AS age FROM preorders AS p JOIN users AS u ON p.owner = u.id"]


def main():
    tier = sys.argv[1] if len(sys.argv) > 1 else "quick"
    ck = Check(PID, tier, "translation_validation")
    tq = 40.0 if tier == "quick" else 180.0
    K = 2 if tier == "quick" else 3
    driver.build()
    path, _ = mir.dump_mir()
    fns = mir.parse_mir(path)
    # a further protected table whose name has another protected table's name as a string suffix (`preorders` / `orders`),
    # with its own, different, privacy-unit definition listed after the shorter name
    tabs = pucat.tables(K) + [dict(name="preorders", size=[0, K], fields=[pucat.f("id", driver.t_int((0, 9)), "PrimaryKey"), pucat.f("user_id", driver.t_int((0, 5))), pucat.f("owner", driver.t_int((0, 5))),
                                                                          pucat.f("amount", driver.t_float((-10.0, 50.0)))])]
    pus = dict(pucat.pu_defs())
    pus["suffix-names"] = dict(tables=list(pus["chain"]["tables"]) + [dict(table="preorders", path=[], field="owner")], hash=False)
    configs = [("chain", "pup_hard"), ("chain", "pup_soft"), ("own-column", "pup_hard")] if tier == "quick" else [(p, m) for p in pus for m in ("pup_hard", "pup_soft")]
    jobs, keys = [], []
    import random as _random
    rnd = _random.Random(seed() * 104729 + 5)
    extra, seen = [], set(PROGRAMS)
    while len(extra) < (8 if tier == "quick" else 80):
        q = pucat.random_row_program(rnd)
        if q not in seen:
            seen.add(q)
            extra.append(q)
    for sql in SUFFIX_PROGRAMS:
        for mode in ("pup_hard", "pup_soft"):
            jobs.append(dict(op="rewrite", mode=mode, tables=tabs, privacy_unit=pus["suffix-names"], dp=dict(epsilon=1.0, delta=1e-3), synthetic=False, sql=sql, render=True))
            keys.append((sql, "suffix-names", mode))
    for sql in list(PROGRAMS) + extra:
        for pun, mode in configs:
            jobs.append(dict(op="rewrite", mode=mode, tables=tabs, privacy_unit=pus[pun], dp=dict(epsilon=1.0, delta=1e-3), synthetic=False, sql=sql, render=True))
            keys.append((sql, pun, mode))
    answers = driver.parallel_batch(jobs, workers=12, timeout=120.0)
    queries, meta = [], {}
    stats = dict(programs=0, refused=0, unsupported={}, panics=0)
    for qi, ((sql, pun, mode), ans) in enumerate(zip(keys, answers)):
        if "panic" in ans:
            stats["panics"] += 1
            ck.violation("pup=panic/%s" % mode, "rewrite_as_privacy_unit_preserving panics on `%s` (%s): %s" % (sql, pun, ans["panic"]), dict(sql=sql, pu=pun))
            continue
        if "ok" not in ans:
            stats["refused"] += 1
            continue
        rel = ans["ok"]["rewritten"]
        names = [f["name"] for f in rel["schema"]]
        protected_read = {p_[0] for p_ in symrel.tables_of(rel)} & {t["table"] for t in pus[pun]["tables"]}
        if (PU not in names or PUW not in names) and not protected_read:
            continue   # the query reads public tables only: it is returned as is (label Public), nothing to track
        if PU not in names or PUW not in names:
            ck.violation("pup=missing-columns", "the relation returned for `%s` (%s, %s) lacks the privacy-unit columns: %s" % (sql, pun, mode, names), dict(sql=sql))
            continue
        pu = pus[pun]
        try:
            ctx = symrel.Ctx(fns)
            tmap = symrel.tables_of(rel)
            db, ctx_tables = {}, {}
            for p, tj in tmap.items():
                r = symrel.make_table(ctx, tj, K)
                db[p] = r
                ctx_tables[p] = (tj, r)
            # tables the ownership needs but the query does not read still have to exist
            for t in pu["tables"]:
                if (t["table"],) not in db:
                    tj = [x for x in tabs if x["name"] == t["table"]][0]
                    tj2 = dict(name=tj["name"], path=[tj["name"]], size=[[str(tj["size"][0]), str(tj["size"][1])]], schema=[dict(name=f["name"], dt=f["dt"], constraint=f["constraint"]) for f in tj["fields"]])
                    r = symrel.make_table(ctx, tj2, K)
                    db[(t["table"],)] = r
                    ctx_tables[(t["table"],)] = (tj2, r)
            u = ctx.new("i64", "unit")
            owned = pucat.owner_terms(pu, db, u)
            A = symrel.eval_rel(ctx, rel, db, {})
            B = symrel.eval_rel(ctx, rel, restrict(db, owned), {})
            # the id the rewriting gives to unit u
            ucell = exprsem.Cell("false", "i64", u)
            if pu.get("hash"):
                target = ctx.ev.func("Md5", None, [dict(e="Function", f="CastAsText", n=None, args=[dict(e="Column", path=["u"])])], {("u",): ucell}, "unit")
            else:
                target = ucell
        except exprsem.Unsupported as ex:
            k = str(ex)[:50]
            stats["unsupported"][k] = stats["unsupported"].get(k, 0) + 1
            continue
        stats["programs"] += 1
        cols = names
        isu = [land([lnot(r.cells[PU].n), "(= %s %s)" % (r.cells[PU].t, target.t)]) if r.cells[PU].ty == target.ty else "false" for r in A.rows]
        # (i) NULL id / weight
        nulls = lor([land([r.p, lor([r.cells[PU].n, r.cells[PUW].n])]) for r in A.rows])
        # (ii) bag difference
        # rows with a NULL id are (i)'s business: (ii) compares the rows that carry an id
        nn = [lnot(r.cells[PU].n) for r in B.rows]
        diff = []
        for i, x in enumerate(A.rows):
            diff.append(land([x.p, isu[i], "(not (= %s %s))" % (count_eq(A.rows, x, cols, isu), count_eq(B.rows, x, cols, nn))]))
        for j, x in enumerate(B.rows):
            diff.append(land([x.p, nn[j], "(not (= %s %s))" % (count_eq(A.rows, x, cols, isu), count_eq(B.rows, x, cols, nn))]))
        nopanic = [lnot(p) for p in ctx.bank.panics]
        vals = symrel.value_names(ctx_tables) + [u]
        common = dict(sql=sql, pu=pun, mode=mode, rel=rel, ctx_tables=ctx_tables, u=u, rendered=ans.get("sql", {}).get("sqlite"))
        queries.append(dict(id="null|%d" % qi, script=ctx.script(nopanic + [nulls]), values=vals))
        meta["null|%d" % qi] = dict(common, what="null")
        queries.append(dict(id="bag|%d" % qi, script=ctx.script(nopanic + [lor(diff)]), values=vals))
        meta["bag|%d" % qi] = dict(common, what="bag")
        if qi % 5 == 0:
            queries.append(dict(id="W|%d" % qi, script=ctx.script(nopanic + [lor([land([r.p, i_]) for r, i_ in zip(A.rows, isu)])]), values=[]))
            meta["W|%d" % qi] = dict(what="witness")
        if qi % 7 == 0:
            ck.sample(dict(sql=sql, privacy_unit=pun, mode=mode, output_rows=len(A.rows)))
    results = smt.solve_all(queries, tq, workers=14, order=["z3new", "cvc5"], progress=200)
    results = smt.replayable_models(queries, results, tq, workers=14, order=["z3new", "cvc5"])
    ck.count(results)
    n_w = disagreements = 0
    for r in results:
        info = meta[r["id"]]
        if info["what"] == "witness":
            n_w += r["status"] == "sat"
            continue
        if r["status"] != "sat":
            continue
        disagreements += 1
        dbm = symrel.model_db(info["ctx_tables"], r["model"])
        uval = int(r["model"][info["u"]])
        pu = pus[info["pu"]]
        owners = pucat.py_owner(pu, dbm)
        dbu = {}
        for p, rows in dbm.items():
            if p[0] in owners:
                dbu[p] = [row for row, o in zip(rows, owners[p[0]]) if o == uval]
            else:
                dbu[p] = rows
        shown = {".".join(p): rows for p, rows in dbm.items()}
        tj = {p: t for p, (t, _) in info["ctx_tables"].items()}
        try:
            c1 = sqlrun.connect()
            sqlrun.load(c1, tj, dbm)
            n1, r1 = sqlrun.run(c1, info["rendered"])
            c2 = sqlrun.connect()
            sqlrun.load(c2, tj, dbu)
            n2, r2 = sqlrun.run(c2, info["rendered"])
        except Exception as ex:
            ck.inconclusive("SQLite replay failed for `%s` (%s, %s): %s" % (info["sql"], info["pu"], info["mode"], ex))
            continue
        ip, iw = n1.index(PU), n1.index(PUW)
        nodes_ = symrel.inner_nodes(info["rel"])
        kinds = sorted({n["kind"] for n in nodes_ if n["k"] == "Join" and n["kind"] != "Inner"})
        feats = kinds + (["limit"] if any(n["k"] == "Map" and (n.get("limit") is not None or n.get("offset") is not None) for n in nodes_) else [])
        role = "+".join(feats) if feats else ("reduce" if any(n["k"] == "Reduce" for n in nodes_) else "map-or-inner-join")
        if info["what"] == "null":
            bad = [row for row in r1 if row[ip] is None or row[iw] is None]
            if bad:
                which = "id" if bad[0][ip] is None else "weight"
                ck.violation("pup=null-%s/%s" % (which, role), "`%s` (%s, %s): the tracked relation returns the row %s with a NULL privacy-unit %s on %s" % (info["sql"], info["pu"], info["mode"], bad[0], which, shown),
                             dict(sql=info["sql"], pu=info["pu"], mode=info["mode"], db=shown, rendered=info["rendered"]))
            else:
                ck.inconclusive("NULL privacy-unit counterexample did not reproduce for `%s` (%s, %s) on %s: rows %s" % (info["sql"], info["pu"], info["mode"], shown, r1[:4]))
            continue
        ukey = uval if not pu.get("hash") else __import__("hashlib").md5(str(uval).encode()).hexdigest()
        a_u = sorted([tuple(row) for row in r1 if row[ip] == ukey], key=repr)
        b = sorted([tuple(row) for row in r2 if row[ip] is not None], key=repr)
        if a_u != b:
            ck.violation("pup=unit-rows-depend-on-other-units/%s" % role, "`%s` (%s, %s): rows attributed to unit %s on D are %s but the same rewriting on D restricted to that unit returns %s; D = %s" % (
                info["sql"], info["pu"], info["mode"], uval, a_u, b, shown), dict(sql=info["sql"], pu=info["pu"], mode=info["mode"], db=shown, unit=uval, rendered=info["rendered"]))
        else:
            ck.inconclusive("bag counterexample did not reproduce for `%s` (%s, %s), unit %s on %s: %s vs %s" % (info["sql"], info["pu"], info["mode"], uval, shown, a_u, b))
    if n_w == 0:
        ck.inconclusive("no witness is satisfiable: vacuous run")
    cov = dict(
        programs=stats["programs"], disagreements_checked=disagreements, refused_by_rewriter=stats["refused"], skipped_unsupported=stats["unsupported"], witnesses_satisfiable=n_w,
        configurations=["%s/%s" % c for c in configs],
        bounds=dict(rows_per_table=K, units="one symbolic unit u (any value)", outside=["more than %d rows per table" % K, "referred ids that are not unique (ownership ambiguous)", "weight columns other than the default 1"]),
        evaluations=len(queries), distinct_nontrivial=len(set(q["script"] for q in queries)),
    )
    return ck.finish(cov, assumptions=["ownership of a protected row = the unit reached through the declared foreign-key path; referred ids are primary keys",
                                       "relational semantics of lib/symrel.py; every reported violation is reproduced by SQLite on the SQL rendered by the library, on D and on D restricted to the unit"])


if __name__ == "__main__":
    sys.exit(main())
