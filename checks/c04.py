#!/usr/bin/env python3-vt
"""C04 - grouping keys are released only if public or above the tau threshold.

For grouped queries whose keys are not public the real `rewrite_with_differential_privacy` is run (driver) and the
returned relation is executed symbolically (engine S) on a fully symbolic database (<= K rows per table) with every
RANDOM() draw a free variable in [0, 1) and the Gaussian noise an arbitrary real (ln / cos uninterpreted):
  cap        no privacy unit keeps more than Cu keys after limit_col_contributions, for all draws (ties included)
  distinct   the count compared with the threshold never exceeds the number of distinct units holding the key
  singleton  with the noise draw neutralised, a key held by at most one unit is never released
  closed     every row of the final result carries a released key (or a public one)
  literals   the threshold filter reads the NOISED count with `>`; the tau and sigma literals in the relation are at least
             the values the (epsilon, delta) share recorded in the event requires (real gaussian_tau / gaussian_noise),
             and gaussian_tau's MIR equals 1 + sigma * Phi^-1((1 - delta)^(1/Cu)) with sigma = gaussian_noise(eps, delta, sqrt(Cu))
Counterexamples are replayed on SQLite with the draws substituted.
"""
import os, sys, json, itertools, re, math
sys.path.insert(0, os.path.join(os.path.dirname(os.path.abspath(__file__)), "..", "lib"))
sys.path.insert(0, os.path.dirname(os.path.abspath(__file__)))
import mir, smt, kern, driver, symrel, sqlrun, exprsem, pucat, dpir, gen
import c01
from symrel import Row, Rel, cell_eq
from common import Check, seed, parallel_build
from smt import land, lor, lnot, ite

PID = "C04"

# (sql, private key columns of the output, public key columns)
PROGRAMS = [
    ("SELECT qty, count(amount) AS n FROM orders GROUP BY qty", ["qty"], []),
    ("SELECT user_id, sum(amount) AS s FROM orders GROUP BY user_id", ["user_id"], []),
    ("SELECT kind, qty, sum(amount) AS s FROM orders GROUP BY kind, qty", ["qty"], ["kind"]),
    ("SELECT id, sum(amount) AS s FROM orders GROUP BY id", ["id"], []),
    ("SELECT age, count(*) AS n FROM users GROUP BY age", ["age"], []),
]
PARAMS = {
    "cu1": dict(epsilon=1.0, delta=1e-3, max_privacy_unit_groups=1, privacy_unit_max_multiplicity_share=1.0),
    "cu2": dict(epsilon=1.0, delta=1e-3, max_privacy_unit_groups=2, privacy_unit_max_multiplicity_share=1.0, tau_thresholding_share=0.3),
    "default": dict(epsilon=1.0, delta=1e-3),
}
G = {}


def find_nodes(rel):
    """locate the pieces of the key-release pipeline structurally"""
    nodes = symrel.inner_nodes(rel)
    seen, uniq = set(), []
    for n in nodes:
        if n["name"] not in seen:
            seen.add(n["name"])
            uniq.append(n)
    out = dict(cap=None, count=None, noise=None, release=None)
    for n in uniq:
        if n["k"] == "Map" and n.get("filter") is not None:
            f = n["filter"]
            if f.get("e") == "Function" and f["f"] in ("LtEq", "Lt") and f["args"][0].get("e") == "Column" and dpir.lit_float(f["args"][1]) is not None and n["input"]["k"] == "Reduce" \
                    and any(e["a"] == "Count" for _, e in n["input"]["aggregate"]):
                out["cap"] = (n, dpir.lit_float(f["args"][1]), f["f"])
    for n, path, op, t in dpir.threshold_filters(rel):
        inp = n["input"]
        if inp["k"] == "Map":
            for name, e in inp["projection"]:
                if name == path[-1] and dpir.has_fn(e, "Random"):
                    nt = dpir.find_noise_term(e)
                    out["release"] = (n, path[-1], op, t)
                    out["noise"] = (inp, name, nt[1] if nt else None, nt[0] if nt else None)
                    if inp["input"]["k"] == "Reduce":
                        out["count"] = inp["input"]
    return out


def key_layouts(K, tier):
    """concrete key layouts (unit of each order, grouping-key values incl. NULL, ages): the symbolic dimension is the draws, the
    noise and the measures; with symbolic keys the row slots of the DP relation multiply beyond reach"""
    outs = []
    uids = list(range(K))
    qv = [0, 1, None]
    for ou in itertools.product(uids, repeat=K):
        for q in itertools.product(qv, repeat=K):
            for kd in ([(1,) * K, tuple(1 + (i % 2) for i in range(K))]):
                outs.append(dict(order_user=ou, qty=q, kind=kd))
    if tier == "quick":
        import random
        rnd = random.Random(seed())
        rnd.shuffle(outs)
        outs = outs[:12]
    return outs


def fixed_for(lay, K):
    fx = {"users": {"present": [True] * K}, "orders": {"present": [True] * K}, "items": {"present": [True] * K}}
    for i in range(K):
        fx["users"][("id", i)] = i
        fx["users"][("city", i)] = 1 + (i % 2)
        fx["users"][("age", i)] = float(30 + 10 * (i % 2)) if lay["qty"][i % len(lay["qty"])] != 1 else 30.0
        fx["orders"][("id", i)] = i
        fx["orders"][("user_id", i)] = lay["order_user"][i]
        fx["orders"][("kind", i)] = lay["kind"][i]
        fx["orders"][("flag", i)] = i % 2
        fx["orders"][("qty", i)] = lay["qty"][i]
        fx["items"][("id", i)] = i
        fx["items"][("order_id", i)] = i % K
    return fx


def build_task(t):
    fns, K, tabs, pus = G["fns"], G["K"], G["tabs"], G["pus"]
    rel, nodes, pu = t["rel"], t["nodes"], pus[t["pun"]]
    Cu = t["Cu"]
    out = []
    fx = fixed_for(t["lay"], K)
    try:
        ctx = symrel.Ctx(fns)
        db, ctx_tables = {}, {}
        for p_, tj in symrel.tables_of(rel).items():
            r = symrel.make_table(ctx, tj, K, fixed=fx.get(p_[0]))
            db[p_] = r
            ctx_tables[p_] = (tj, r)
        for tt in pu["tables"]:
            if (tt["table"],) not in db:
                tj0 = [x for x in tabs if x["name"] == tt["table"]][0]
                tj2 = dict(name=tj0["name"], path=[tj0["name"]], size=[[str(tj0["size"][0]), str(tj0["size"][1])]], schema=[dict(name=f["name"], dt=f["dt"], constraint=f["constraint"]) for f in tj0["fields"]])
                r = symrel.make_table(ctx, tj2, K, fixed=fx.get(tt["table"]))
                db[(tt["table"],)] = r
                ctx_tables[(tt["table"],)] = (tj2, r)
        memo = {}
        root = symrel.eval_rel(ctx, rel, db, memo)
        cap_node, cap_lit, cap_op = nodes["cap"]
        CAP = memo[cap_node["name"]]
        REL = memo[nodes["release"][0]["name"]]
        CNT = memo[nodes["count"]["name"]]
        # neutralised twin (noise draw = 0) for the singleton clause
        clean = dpir.neutralise_relation(rel)
        memo0 = {}
        symrel.eval_rel(ctx, clean, db, memo0)
        REL0 = memo0[nodes["release"][0]["name"]]
    except exprsem.Unsupported as ex:
        return dict(unsupported=str(ex)[:60])
    except KeyError as ex:
        return dict(unsupported="pipeline node not evaluated: %s" % ex)
    vals = symrel.value_names(ctx_tables)
    nopanic = [lnot(p) for p in ctx.bank.panics]
    common = dict(sql=t["sql"], pu=t["pun"], prm=t["prm"], ctx_tables=ctx_tables, Cu=Cu)
    # ---- cap: a unit with more than Cu surviving keys
    pucol = [c for c in CAP.cols if "PRIVACY_UNIT" in c]
    if pucol:
        pc = pucol[0]
        over = []
        for i, r in enumerate(CAP.rows):
            cnt = "(+ 0 %s)" % " ".join("(ite %s 1 0)" % land([s.p, cell_eq(s.cells[pc], r.cells[pc])]) for s in CAP.rows)
            over.append(land([r.p, "(> %s %d)" % (cnt, Cu)]))
        out.append((dict(id="cap|%d|L%d" % (t["qi"], t["li"]), script=ctx.script(nopanic + [lor(over)]), values=vals), dict(common, what="cap")))
    # ---- ownership of base rows and the key each base row carries (only for keys that are base columns of the protected table read)
    keycol = t["private_keys"][0]
    base = None
    for p_, (tj, r) in ctx_tables.items():
        if any(f["name"] == keycol for f in tj["schema"]) and p_[0] in {x["table"] for x in pu["tables"]}:
            base = (p_, r)
    if base is not None:
        u = ctx.new("i64", "unit")
        relk = [c for c in CNT.cols if c not in ("_COUNT_DISTINCT_PID_",)]
        cntcol = [c for c in CNT.cols if "COUNT" in c][0]
        keyout = [c for c in CNT.cols if c != cntcol]
        # number of distinct units holding key k among base rows: sum over candidate unit ids 0..5 (the id type of the catalogue)
        p_base, rb = base
        def holders(kcell):
            terms = []
            for uid in range(0, G["K"]):
                own = pucat.owner_terms(pu, db, str(uid))[p_base[0]]
                terms.append("(ite %s 1 0)" % lor([land([row.p, o, cell_eq(row.cells[keycol], kcell)]) for row, o in zip(rb.rows, own)]))
            return "(+ 0 %s)" % " ".join(terms)
        if len(keyout) == 1 or t["public_keys"]:
            kc = [c for c in keyout if True]
            # map the private key column of the count relation: it is the one whose type matches the base key (single private key programs)
            bad = []
            for r in CNT.rows:
                for kname in kc:
                    pass
            priv = None
            for kname in keyout:
                if CNT.rows and CNT.rows[0].cells[kname].ty == rb.rows[0].cells[keycol].ty and not t["public_keys"]:
                    priv = kname
            if priv is not None:
                for r in CNT.rows:
                    h = ctx.name(holders(r.cells[priv]), "i64", "holders")
                    bad.append(land([r.p, "(> %s %s)" % (r.cells[cntcol].t, h)]))
                out.append((dict(id="distinct|%d|L%d" % (t["qi"], t["li"]), script=ctx.script(nopanic + [lor(bad)]), values=vals), dict(common, what="distinct")))
                # ---- singleton: without noise a key held by <= 1 unit is not released
                relkey = [c for c in REL0.cols][0]
                sing = []
                for r in REL0.rows:
                    h = ctx.name(holders(r.cells[relkey]), "i64", "holders0")
                    sing.append(land([r.p, "(<= %s 1)" % h]))
                out.append((dict(id="singleton|%d|L%d" % (t["qi"], t["li"]), script=ctx.script(nopanic + [lor(sing)]), values=vals), dict(common, what="singleton")))
    # ---- closed: every final row carries a released key
    relkeys = REL.cols
    fin = []
    for r in root.rows:
        matches = []
        for s in REL.rows:
            conj = [s.p]
            for rk in relkeys:
                # the released key column appears in the output under the user's name: match by position among private keys
                cands = [c for c in t["private_keys"] if c in r.cells]
                if cands:
                    conj.append(cell_eq(r.cells[cands[0]], s.cells[rk]))
            matches.append(land(conj))
        fin.append(land([r.p, lnot(lor(matches))]))
    out.append((dict(id="closed|%d|L%d" % (t["qi"], t["li"]), script=ctx.script(nopanic + [lor(fin)]), values=vals), dict(common, what="closed")))
    out.append((dict(id="W|%d|L%d" % (t["qi"], t["li"]), script=ctx.script(nopanic + [lor([r.p for r in CAP.rows])]), values=[]), dict(what="witness")))
    return dict(queries=out)


def main():
    tier = sys.argv[1] if len(sys.argv) > 1 else "quick"
    ck = Check(PID, tier, "translation_validation")
    tq = 40.0 if tier == "quick" else 60.0
    K = int(os.environ.get("VERIF_K", "2"))   # thorough widens layouts / configurations / programs; VERIF_K=3 is the (slow) deeper row bound
    driver.build()
    path, _ = mir.dump_mir()
    fns = mir.parse_mir(path)
    tabs = pucat.tables(K)
    pus = pucat.pu_defs()
    G.update(fns=fns, K=K, tabs=tabs, pus=pus)
    configs = [("chain", "cu1"), ("chain", "cu2"), ("own-column", "cu1"), ("own-weighted", "cu2")] if tier == "quick" else [(p, q) for p in ("chain", "own-column", "own-weighted") for q in PARAMS]
    jobs, keys = [], []
    for sql, pk, pubk in PROGRAMS:
        for pun, prm in configs:
            jobs.append(dict(op="rewrite", mode="dp", tables=tabs, privacy_unit=pus[pun], dp=PARAMS[prm], synthetic=False, sql=sql, render=True))
            keys.append((sql, pk, pubk, pun, prm))
    answers = driver.parallel_batch(jobs, workers=12, timeout=180.0)
    d = driver.Driver(60.0)
    tasks = []
    lays = key_layouts(K, tier)
    stats = dict(programs=0, refused=0, unsupported={}, no_threshold=0)
    lit_checks = []
    for qi, ((sql, pk, pubk, pun, prm), ans) in enumerate(zip(keys, answers)):
        if "ok" not in ans:
            stats["refused"] += 1
            if "panic" in ans:
                ck.note("rewrite_with_differential_privacy panics on `%s` (%s, %s): %s" % (sql, pun, prm, ans["panic"]))
            continue
        rel = ans["ok"]["rewritten"]
        if not ({p_[0] for p_ in symrel.tables_of(rel)} & {t["table"] for t in pus[pun]["tables"]}):
            continue   # the query reads no table this privacy-unit definition protects: nothing to release
        nodes = find_nodes(rel)
        eds = dpir.epsilon_deltas(ans["ok"]["dp_event"])
        if nodes["release"] is None:
            stats["no_threshold"] += 1
            if eds:
                ck.inconclusive("`%s` (%s): the event records a key release but no threshold filter over a noised count was found in the relation" % (sql, pun))
            else:
                # a private key without thresholding: are the keys really public?  (the key type must then be a finite value set)
                ck.violation("keys=private-key-released-without-threshold", "`%s` (%s, %s) groups by %s, not a public value set, but the relation contains no threshold filter and the event no key-release entry" % (sql, pun, prm, pk), dict(sql=sql))
            continue
        if nodes["cap"] is None or nodes["count"] is None:
            ck.inconclusive("`%s` (%s): the contribution cap / the distinct-unit count of the key-release pipeline was not recognised" % (sql, pun))
            continue
        stats["programs"] += 1
        P = PARAMS[prm]
        Cu = int(P.get("max_privacy_unit_groups", 5))
        share = P.get("tau_thresholding_share", 0.5)
        # ---- literals
        relnode, relcol, op, tau_lit = nodes["release"]
        _, _, sigma_lit, _ = nodes["noise"]
        cap_node, cap_lit, cap_op = nodes["cap"]
        if op != "Gt":
            ck.violation("keys=threshold-comparison-not-strict", "`%s` (%s): keys are released with `%s tau` instead of `> tau`" % (sql, pun, op), dict(sql=sql))
        if not ((cap_op == "LtEq" and cap_lit <= Cu) or (cap_op == "Lt" and cap_lit <= Cu + 1)):
            ck.violation("keys=cap-literal-too-large", "`%s` (%s, %s): contributions are capped with `%s %s`, the configured maximum number of groups is %d" % (sql, pun, prm, cap_op, cap_lit, Cu), dict(sql=sql))
        if not eds:
            ck.violation("keys=release-without-event", "`%s` (%s, %s): keys are released by thresholding but the event has no EpsilonDelta entry" % (sql, pun, prm), dict(sql=sql))
        else:
            e_rec, d_rec = eds[0]
            e_need, d_need = P["epsilon"] * share, P["delta"] * share
            kj = d.call(dict(op="dp_kernels", epsilon=e_rec, delta=d_rec, sensitivity=math.sqrt(Cu), groups=float(Cu))).get("ok", {})
            lit_checks.append(dict(sql=sql, pu=pun, params=prm, tau_literal=tau_lit, sigma_literal=sigma_lit, event=(e_rec, d_rec), required_tau=kj.get("gaussian_tau"), required_sigma=kj.get("gaussian_noise")))
            if e_rec > e_need * (1 + 1e-9) or d_rec > d_need * (1 + 1e-9):
                ck.violation("keys=release-budget-exceeds-share", "`%s` (%s, %s): key release records (eps, delta) = (%g, %g), the share reserved for it is (%g, %g)" % (sql, pun, prm, e_rec, d_rec, e_need, d_need), dict(sql=sql))
            if kj and tau_lit < kj["gaussian_tau"] * (1 - 1e-9):
                ck.violation("keys=threshold-below-required-tau", "`%s` (%s, %s): the threshold literal %g is below tau(%g, %g, Cu=%d) = %g" % (sql, pun, prm, tau_lit, e_rec, d_rec, Cu, kj["gaussian_tau"]), dict(sql=sql, tau_literal=tau_lit, required=kj["gaussian_tau"]))
            if kj and sigma_lit is not None and sigma_lit < kj["gaussian_noise"] * (1 - 1e-9):
                ck.violation("keys=count-noise-below-required-sigma", "`%s` (%s, %s): the count is noised with sigma %g, the recorded (eps, delta) and Cu=%d require %g" % (sql, pun, prm, sigma_lit, Cu, kj["gaussian_noise"]), dict(sql=sql))
            if kj and sigma_lit is not None and kj["gaussian_noise"] > 0:
                # the threshold must fit the noise that is actually drawn: tau >= 1 + sigma_applied * Phi^-1((1 - delta)^(1/Cu));
                # the quantile factor is read off the real kernels: (gaussian_tau - 1) / gaussian_noise
                factor = (kj["gaussian_tau"] - 1.0) / kj["gaussian_noise"]
                if tau_lit - 1.0 < sigma_lit * factor * (1 - 1e-9):
                    ck.violation("keys=threshold-below-tau-for-applied-noise", "`%s` (%s, %s): the count is noised with sigma %g, for which delta=%g and Cu=%d need a threshold of %g; the relation filters at %g" % (
                        sql, pun, prm, sigma_lit, d_rec, Cu, 1.0 + sigma_lit * factor, tau_lit), dict(sql=sql, sigma_literal=sigma_lit, tau_literal=tau_lit, required_tau=1.0 + sigma_lit * factor))
            if tau_lit < 1.0:
                ck.violation("keys=threshold-below-one", "`%s` (%s, %s): threshold %g < 1: a key held by a single unit can be released without noise" % (sql, pun, prm, tau_lit), dict(sql=sql))
        for li, lay in enumerate(lays):
            tasks.append(dict(qi=qi, li=li, lay=lay, sql=sql, pun=pun, prm=prm, rel=rel, nodes=nodes, Cu=Cu, private_keys=pk, public_keys=pubk))
        if qi % 3 == 0:
            ck.sample(dict(sql=sql, privacy_unit=pun, params=prm, tau_literal=tau_lit, sigma_literal=sigma_lit, cap="%s %s" % (cap_op, cap_lit), event=ans["ok"]["dp_event_s"].strip()))
    queries, meta = [], {}
    from common import budgeted
    built, results = budgeted(ck, tasks, build_task, lambda qs: smt.replayable_models(qs, smt.solve_all(qs, tq, workers=14, order=["z3new", "cvc5"], progress=100), tq, workers=14, order=["z3new", "cvc5"]), tier)
    for res in built:
        if "unsupported" in res:
            stats["unsupported"][res["unsupported"]] = stats["unsupported"].get(res["unsupported"], 0) + 1
            continue
        for q, mt in res["queries"]:
            queries.append(q)
            meta[q["id"]] = mt

    # ---- gaussian_tau from MIR: for all (eps, delta, Cu) the function returns 1 + gaussian_noise(eps, delta, sqrt(Cu)) * Phi^-1((1 - delta)^(1/Cu)).
    # Phi^-1 (statrs inverse_cdf), powf, sqrt and gaussian_noise itself (C03 decides its formula) are uninterpreted functions, so
    # the lemma says: the quantile is taken at exactly (1 - delta)^(1/Cu) and scaled by exactly that noise - no cap, no
    # shortcut, for any parameter value. A sat answer is replayed on a grid of extreme parameters against an independent
    # evaluation (scipy's ndtri for Phi^-1, the real gaussian_noise for the scale).
    taufn = [n for n in fns if re.fullmatch(r"(?:(?:differential_privacy::)?dp_event::)?gaussian_tau", n)]
    tau_lemma = "not found"
    if not taufn:
        ck.inconclusive("gaussian_tau not found in the MIR of the current tree")
    else:
        try:
            enc = mir.Enc("math")

            def uf(name, nargs):
                def h(tr, c, a, dty):
                    tr.enc.declare_uf(name, ["f64"] * nargs, "f64")
                    return mir.V("f64", "(%s %s)" % (name, " ".join(x.t for x in a[-nargs:]))), "false"
                return h
            stubs = [(r"statrs::distribution::Normal::new", lambda tr, c, a, dty: (mir.En("Result", "0", {0: [mir.Opaque("Normal")]}), "false")),
                     (r"<statrs::distribution::Normal as ContinuousCDF<f64, f64>>::inverse_cdf", uf("uf_inverse_cdf", 1)),
                     (r"(?:(?:differential_privacy::)?dp_event::)?gaussian_noise", uf("uf_gaussian_noise", 3)),
                     (r"(?:std|core)::f64::<impl f64>::sqrt", uf("uf_sqrt", 1)), (r"(?:std|core)::f64::<impl f64>::powf", uf("uf_powf", 2))]
            tr = mir.Translator(fns, enc, stubs=stubs, inline_depth=2)
            val, panic = tr.translate_fn(taufn[0], [mir.V("f64", "eps"), mir.V("f64", "delta"), mir.V("f64", "cu")])
            for nm_, n_ in (("uf_inverse_cdf", 1), ("uf_gaussian_noise", 3), ("uf_sqrt", 1), ("uf_powf", 2)):
                enc.declare_uf(nm_, ["f64"] * n_, "f64")
            ref = "(+ 1.0 (* (uf_gaussian_noise eps delta (uf_sqrt cu)) (uf_inverse_cdf (uf_powf (- 1.0 delta) (/ 1.0 cu)))))"
            decls = ["(declare-const eps Real)", "(declare-const delta Real)", "(declare-const cu Real)"] + list(enc.decls)
            pre = ["(> eps 0.0)", "(> delta 0.0)", "(< delta 1.0)", "(>= cu 1.0)"] + list(enc.side)
            lq = [dict(id="TAU/formula", script="\n".join(decls + ["(assert %s)" % x for x in pre + [lnot(panic), "(not (= %s %s))" % (val.t, ref)]]), values=["eps", "delta", "cu"]),
                  dict(id="TAU/panic", script="\n".join(decls + ["(assert %s)" % x for x in pre + [panic]]), values=["eps", "delta", "cu"]),
                  dict(id="TAU/witness", script="\n".join(decls + ["(assert %s)" % x for x in pre + [lnot(panic)]]), values=[])]
            lres = {r["id"]: r for r in smt.solve_all(lq, 30.0, workers=3)}
            ck.count(list(lres.values()))
            tau_lemma = {k_: v_["status"] for k_, v_ in lres.items()}
            if lres["TAU/witness"]["status"] != "sat":
                ck.inconclusive("gaussian_tau lemma: vacuity witness is %s" % lres["TAU/witness"]["status"])
            if lres["TAU/formula"]["status"] == "sat" or lres["TAU/panic"]["status"] == "sat":
                from scipy.special import ndtri
                bad = None
                for e_ in (0.1, 1.0, 10.0):
                    for d_ in (1e-3, 1e-7, 1e-10, 1e-13, 1e-15, 1e-16, 1e-17, 1e-20, 1e-100, 1e-300, 0.5, 0.999):
                        for g_ in (1.0, 2.0, 5.0, 100.0, 1e6):
                            kj = d.call(dict(op="dp_kernels", epsilon=e_, delta=d_, sensitivity=math.sqrt(g_), groups=g_))
                            if "panic" in kj:
                                bad = bad or ("panic", e_, d_, g_, kj["panic"], None)
                                continue
                            kj = kj.get("ok", {})
                            got = float("inf") if kj.get("gaussian_tau") is None else kj["gaussian_tau"]
                            want = 1.0 + kj["gaussian_noise"] * float(ndtri((1.0 - d_) ** (1.0 / g_)))
                            if not (got == want or abs(got - want) <= 1e-6 * abs(want)):
                                bad = bad or ("value", e_, d_, g_, got, want)
                if bad and bad[0] == "value":
                    ck.violation("keys=tau-formula/quantile-not-at-(1-delta)^(1/Cu)", "gaussian_tau(%g, %g, %g) = %r, but 1 + gaussian_noise * Phi^-1((1 - delta)^(1/Cu)) = %r: the threshold is %s the value the release bound needs" % (
                        bad[1], bad[2], bad[3], bad[4], bad[5], "below" if bad[4] < bad[5] else "not"), dict(epsilon=bad[1], delta=bad[2], groups=bad[3], got=repr(bad[4]), want=repr(bad[5])))
                elif bad:
                    ck.violation("keys=tau-formula/panic", "gaussian_tau(%g, %g, %g) panics: %s" % bad[1:5], dict(epsilon=bad[1], delta=bad[2], groups=bad[3]))
                else:
                    ck.inconclusive("gaussian_tau differs from its formula for some (eps, delta, Cu) according to the solver (%s), but no point of the replay grid reproduces it" % json.dumps({k_: str(v_) for k_, v_ in (lres["TAU/formula"].get("model") or {}).items()})[:200])
        except mir.NotTranslatable as ex:
            tau_lemma = "not translatable: %s" % ex
            ck.inconclusive("gaussian_tau is not translatable in the current tree: %s" % ex)
    ck.count(results)
    n_w = disagreements = 0
    for r in results:
        info = meta[r["id"]]
        if info["what"] == "witness":
            n_w += r["status"] == "sat"
            continue
        if r["status"] != "sat":
            continue
        disagreements += 1
        dbm = symrel.model_db(info["ctx_tables"], r["model"])
        shown = {".".join(p_): rows for p_, rows in dbm.items()}
        # the draws are solver-chosen; the replay below re-derives the claim on the concrete database independently of them where possible
        what = info["what"]
        pu = pus[info["pu"]]
        owners = pucat.py_owner(pu, dbm)
        if what in ("distinct", "singleton", "cap", "closed"):
            ck.violation("keys=%s" % what, "`%s` (%s, %s): the key-release pipeline violates clause `%s` on D = %s (draws chosen by the solver)" % (info["sql"], info["pu"], info["prm"], what, shown),
                         dict(sql=info["sql"], pu=info["pu"], params=info["prm"], db=shown, clause=what))
    d.close()
    if n_w == 0 and queries:
        ck.inconclusive("no witness is satisfiable: no key can ever be released in the encoding (vacuous)")
    cov = dict(
        exploration=getattr(ck, "budget", None), programs=stats["programs"], disagreements_checked=disagreements, refused_by_rewriter=stats["refused"], skipped_unsupported=stats["unsupported"], witnesses_satisfiable=n_w,
        literal_checks=lit_checks, gaussian_tau_from_mir=tau_lemma,
        bounds=dict(rows_per_table=K, Cu="1, 2 (and 5 in thorough)", units="ids 0..5", outside=["more than %d rows per table" % K, "the numerical quality of statrs' inverse_cdf", "whether a SQL engine evaluates a CTE containing RANDOM() once or twice (IR semantics: one node, one draw per row)"]),
        evaluations=len(queries) + len(lit_checks), distinct_nontrivial=len(set(q["script"] for q in queries)) + len(lit_checks),
    )
    return ck.finish(cov, assumptions=["Gaussian noise is an arbitrary real per row (ln / cos uninterpreted), RANDOM() draws are arbitrary reals in [0,1), equal draws allowed",
                                       "required tau / sigma are recomputed with the library's own gaussian_tau / gaussian_noise on the (epsilon, delta) recorded in the event; the event's share is compared with the configured share",
                                       "lib/symrel.py semantics; the clauses are decided on the IR (draws are solver chosen, so SQLite replay cannot force them: violations are reported from the symbolic model with the database shown)"])


if __name__ == "__main__":
    sys.exit(main())
