#!/usr/bin/env python3-vt
"""C02 - no un-noised path from protected tables to a DP / published result.

Rule level (all trees, by induction): the rule table is extracted from the real RewritingRulesSetter on the corpus
(every node kind x protected / public leaves x synthetic data on/off x both strategies); the solver checks, for a
symbolic row of that table, the inductive obligations
   (a) a protected table is never offered as Public / Published / DifferentiallyPrivate
   (b) clean(output) => all inputs clean, except Reduce: [PrivacyUnitPreserving] -> DifferentiallyPrivate
   (c) output = Public => all inputs Public
   (d) only Reduce produces DifferentiallyPrivate
 and that the entry points accept only the documented root labels.
Tree level (every labeling of every corpus tree, solver): no consistent labeling puts a clean label on a node that has a
 tainted (Private / PrivacyUnitPreserving) protected leaf below it without a PUP->DP reduce in between.
IR level (structural walk of the relation actually returned by rewrite_with_differential_privacy, reported as such):
 every path from the root to a protected base table crosses an aggregation followed by a noise-adding map.
"""
import os, sys, json
sys.path.insert(0, os.path.join(os.path.dirname(os.path.abspath(__file__)), "..", "lib"))
import smt, driver, rules
from rules import PIDX, PROPS, CLEAN
from common import Check, seed
from smt import land, lor, lnot, ite

PID = "C02"
KINDS = ["Table", "Map", "Reduce", "Join", "Set", "Values"]
TAINTED = {"Private", "PrivacyUnitPreserving"}


def has_random(e):
    if isinstance(e, dict):
        if e.get("e") == "Function" and e.get("f") == "Random":
            return True
        return any(has_random(v) for v in e.values())
    if isinstance(e, list):
        return any(has_random(v) for v in e)
    return False


def paths_to_protected(rel, prefix=None):
    prefix = (prefix or []) + [rel]
    if rel["k"] == "Table":
        if tuple(rel.get("path") or []) in rules.PROTECTED_PATHS:
            yield prefix
        return
    for key in ("input", "left", "right"):
        if key in rel:
            yield from paths_to_protected(rel[key], prefix)


def main():
    tier = sys.argv[1] if len(sys.argv) > 1 else "quick"
    ck = Check(PID, tier, "other")
    tq = 30.0 if tier == "quick" else 120.0
    driver.build()
    shapes = rules.corpus(tier, seed())
    ext = rules.extract(shapes)
    table = {}      # distinct rule rows
    queries, meta = [], {}
    n_prog = 0
    labelings = 0
    entry_ok = []
    for (shape, syn), job, ans in ext:
        o = ans.get("ok")
        if "timeout" in ans or "crash" in ans or "panic" in ans:
            ck.inconclusive("rule extraction failed on %s: %s" % (rules.sql_of(shape), json.dumps(ans)[:200]))   # never skipped silently
            continue
        if not isinstance(o, dict) or "Hard" not in o:
            continue
        n_prog += 1
        for strat in ("Soft", "Hard"):
            S = o.get(strat, {})
            if "set" not in S:
                ck.inconclusive("rule extraction panicked for %s/%s: %s" % (rules.sql_of(shape), strat, json.dumps(S)[:200]))
                continue
            nodes, root = rules.flatten(S["set"])
            for n in nodes:
                prot = rules.protected_leaf(n, job["tables"])
                for r in n["rules"]:
                    row = (n["kind"], prot, tuple(r["inputs"]), r["output"], r["param"], syn, strat)
                    table.setdefault(row[:5], set()).add((syn, strat))
            # tree level: taint
            decls, cons, out = rules.encode(nodes)
            taint = {}
            for n in nodes:  # post-order
                i = n["idx"]
                if n["kind"] == "Table" and rules.protected_leaf(n, job["tables"]):
                    taint[i] = rules.in_set(out[i], TAINTED | {"Public", "Published", "DifferentiallyPrivate"})  # anything but SyntheticData
                elif not n["children"]:
                    taint[i] = "false"
                else:
                    below = lor([taint[c] for c in n["children"]])
                    is_dp_reduce = land(["(= %s %d)" % (out[i], PIDX["DifferentiallyPrivate"])]) if n["kind"] == "Reduce" else "false"
                    taint[i] = land([below, lnot(is_dp_reduce)])
            bad = lor([land([taint[n["idx"]], rules.in_set(out[n["idx"]], CLEAN)]) for n in nodes])
            qid = "tree|%s|syn=%d|%s" % (json.dumps(shape), syn, strat)
            queries.append(dict(id=qid, script="\n".join(decls + ["(assert %s)" % c for c in cons] + ["(assert %s)" % bad]), values=["c%d" % n["idx"] for n in nodes]))
            meta[qid] = dict(kind="tree", shape=shape, syn=syn, strat=strat, nodes=nodes)
            sp = 1
            for n in nodes:
                sp *= max(1, len(n["rules"]))
            labelings += sp
        if "ok" in o.get("entry_dp", {}):
            entry_ok.append((shape, syn))
    # ---- rule level: symbolic row of the extracted table
    rows = sorted(table)
    if not rows:
        ck.inconclusive("no rule could be extracted")
        return ck.finish(dict(explanation="nothing extracted"))
    maxin = max(len(r[2]) for r in rows)
    decl = ["(declare-const r Int)", "(assert (and (<= 0 r) (< r %d)))" % len(rows)]

    def col(f, default="(- 1)"):
        t = default
        for i, row in reversed(list(enumerate(rows))):
            t = ite("(= r %d)" % i, f(row), t)
        return t

    kind = col(lambda row: str(KINDS.index(row[0])))
    prot = col(lambda row: "true" if row[1] else "false", "false")
    outp = col(lambda row: str(PIDX[row[3]]))
    nin = col(lambda row: str(len(row[2])))
    ins = [col(lambda row, k=k: str(PIDX[row[2][k]]) if k < len(row[2]) else "(- 1)") for k in range(maxin)]
    clean = lambda t: rules.in_set(t, CLEAN)
    all_in = lambda pred: land(["(=> (> %s %d) %s)" % (nin, k, pred(ins[k])) for k in range(maxin)])
    dp_reduce = land(["(= %s %d)" % (kind, KINDS.index("Reduce")), "(= %s 1)" % nin, "(= %s %d)" % (ins[0], PIDX["PrivacyUnitPreserving"]), "(= %s %d)" % (outp, PIDX["DifferentiallyPrivate"])])
    obligations = {
        "a-protected-leaf-never-clean": land([prot, rules.in_set(outp, {"Public", "Published", "DifferentiallyPrivate"})]),
        "b-clean-output-needs-clean-inputs": land(["(> %s 0)" % nin, clean(outp), lnot(all_in(clean)), lnot(dp_reduce)]),
        "c-public-needs-public-inputs": land(["(> %s 0)" % nin, "(= %s %d)" % (outp, PIDX["Public"]), lnot(all_in(lambda t: "(= %s %d)" % (t, PIDX["Public"])))]),
        "d-only-reduce-makes-dp": land(["(= %s %d)" % (outp, PIDX["DifferentiallyPrivate"]), lnot(dp_reduce)]),
        "e-synthetic-only-from-synthetic": land(["(> %s 0)" % nin, "(= %s %d)" % (outp, PIDX["SyntheticData"]), lnot(all_in(lambda t: "(= %s %d)" % (t, PIDX["SyntheticData"])))]),
    }
    for name, neg in obligations.items():
        qid = "rule|" + name
        queries.append(dict(id=qid, script="\n".join(decl + ["(assert %s)" % neg]), values=["r"]))
        meta[qid] = dict(kind="rule", name=name)
    # vacuity witnesses: the table contains a protected leaf row, a DP reduce row and a clean non-leaf row
    for wname, cond in (("protected-leaf", prot), ("dp-reduce", dp_reduce), ("clean-inner", land(["(> %s 0)" % nin, clean(outp)]))):
        queries.append(dict(id="W|" + wname, script="\n".join(decl + ["(assert %s)" % cond]), values=["r"]))
        meta["W|" + wname] = dict(kind="witness")
    results = smt.solve_all(queries, tq, workers=14, order=["z3new", "cvc5"])
    ck.count(results)
    for r in results:
        info = meta[r["id"]]
        if info["kind"] == "witness":
            if r["status"] != "sat":
                ck.inconclusive("vacuity witness %s is %s: the extracted rule table lacks the rows the obligations talk about" % (r["id"], r["status"]))
            continue
        if r["status"] != "sat":
            continue
        if info["kind"] == "rule":
            row = rows[int(r["model"]["r"])]
            where = sorted(table[row])
            ck.violation("rule=%s/%s[%s]->%s%s" % (info["name"], row[0], ",".join(row[2]), row[3], "/protected-leaf" if row[1] else ""),
                         "the setter offers the rule %s: [%s] -> %s%s (seen with (synthetic, strategy) in %s), which breaks obligation %s" % (
                             row[0], ", ".join(row[2]), row[3], " on a protected table" if row[1] else "", where, info["name"]), dict(row=row, configs=where))
        else:
            lab = []
            for n in info["nodes"]:
                rr = n["rules"][int(r["model"]["c%d" % n["idx"]])]
                lab.append("%s[%s]: %s -> %s" % (n["kind"], n["name"], ",".join(rr["inputs"]) or "-", rr["output"]))
            ck.violation("tree=clean-label-above-tainted-leaf", "`%s` (synthetic=%s, %s) admits the consistent labeling %s" % (rules.sql_of(info["shape"]), info["syn"], info["strat"], lab),
                         dict(sql=rules.sql_of(info["shape"]), labeling=lab))
    # ---- entry filters: the labels the entry points accept (probed through the real entry points on single-label trees)
    # a Map over a protected table can only be Private/PUP/SD: rewrite_with_differential_privacy must refuse it without synthetic data
    d = driver.Driver(60.0)
    probe = d.call(dict(op="rules", tables=rules.tables(), privacy_unit=rules.PRIVACY_UNIT, dp=dict(epsilon=1.0, delta=1e-3), synthetic=False, sql="SELECT id, a FROM prot"))
    e = probe.get("ok", {}).get("entry_dp", {})
    if "ok" in e:
        ck.violation("entry=dp-accepts-tainted-root", "rewrite_with_differential_privacy returns a relation for `SELECT id, a FROM prot` without synthetic data (root can only be Private / PrivacyUnitPreserving)", dict(answer=e))
    # ---- IR level: structural walk of what the compiler actually returned
    walked = bad_paths = 0
    todo = entry_ok if tier != "quick" else entry_ok[:40]
    jobs = [dict(op="rewrite", mode="dp", tables=rules.tables(), privacy_unit=rules.PRIVACY_UNIT, dp=dict(epsilon=1.0, delta=1e-3), synthetic=syn, sql=rules.sql_of(shape)) for shape, syn in todo]
    d.close()
    answers = driver.parallel_batch(jobs, workers=12, timeout=120.0)
    for (shape, syn), a in zip(todo, answers):
        if "ok" not in a:
            continue
        rel = a["ok"]["rewritten"]
        for path in paths_to_protected(rel):
            walked += 1
            up = list(reversed(path))  # leaf ... root
            red = [i for i, n in enumerate(up) if n["k"] == "Reduce"]
            ok = False
            for i in red:
                if any(n["k"] == "Map" and has_random(n.get("projection")) for n in up[i + 1:]):
                    ok = True
            if not ok:
                bad_paths += 1
                ck.violation("ir=path-without-noised-aggregation", "`%s` (synthetic=%s): the relation returned by rewrite_with_differential_privacy reads the protected table %s through the path %s with no aggregation followed by a noise-adding map" % (
                    rules.sql_of(shape), syn, ".".join(up[0].get("path", [])), " < ".join(n["k"] for n in up)), dict(sql=rules.sql_of(shape), synthetic=syn))
    ck.samples = [dict(rule="%s: [%s] -> %s%s" % (r[0], ", ".join(r[2]), r[3], " (protected table)" if r[1] else "")) for r in rows[:12]]
    cov = dict(
        explanation="rule level: %d distinct rule rows extracted from the real setter, 5 inductive obligations decided by the solver over a symbolic row (covers relation trees of any depth); tree level: all labelings of %d corpus trees (%d labelings) decided by the solver; IR level: %d root-to-protected-table paths of %d returned relations walked structurally (not a solver claim)" % (
            len(rows), n_prog * 2, labelings, walked, len(todo)),
        rule_rows=len(rows), programs=n_prog, labelings=labelings, ir_paths_walked=walked, ir_bad_paths=bad_paths,
        obligation_names=sorted(obligations), obligations=len(obligations), discharged=sum(1 for r in results if meta[r['id']]['kind']=='rule' and r['status']=='unsat'),
        bounds=dict(configurations="synthetic data on/off x Soft/Hard x protected (direct id, qualified path, foreign-key path) / public tables",
                    outside=["the lineage formulation over arbitrary emitted IR is only walked structurally on the corpus", "semantic non-interference is C01/C04/C05's business"]),
        evaluations=len(queries), distinct_nontrivial=len(set(q["script"] for q in queries)),
    )
    return ck.finish(cov, assumptions=["which tables are protected is resolved independently of the code under test (by declared path)",
                                       "noise-adding map = a Map whose projection contains a Random function"])


if __name__ == "__main__":
    sys.exit(main())
