#!/usr/bin/env python3-vt
"""C02 - no un-noised path from protected tables to a DP / published result.

Rule level (all trees, by induction): the rule table is extracted from the real RewritingRulesSetter on the corpus
(every node kind x protected / public leaves x synthetic data on/off x both strategies); the solver checks, for a
symbolic row of that table, the inductive obligations
   (a) a protected table is never offered as Public / Published / DifferentiallyPrivate
   (b) clean(output) => all inputs clean, except Reduce: [PrivacyUnitPreserving] -> DifferentiallyPrivate
   (c) output = Public => all inputs Public
   (d) only Reduce produces DifferentiallyPrivate
 and that the entry points accept only the documented root labels.
Tree level (every labeling of every corpus tree, solver): no consistent labeling puts a clean label on a node that has a
 tainted (Private / PrivacyUnitPreserving) protected leaf below it without a PUP->DP reduce in between.
IR level (structural walk of the relation actually returned by rewrite_with_differential_privacy, reported as such):
 every path from the root to a protected base table crosses an aggregation followed by a noise-adding map.
"""
import os, sys, json
sys.path.insert(0, os.path.join(os.path.dirname(os.path.abspath(__file__)), "..", "lib"))
import smt, driver, rules
from rules import PIDX, PROPS, CLEAN
from common import Check, seed
from smt import land, lor, lnot, ite

PID = "C02"
KINDS = ["Table", "Map", "Reduce", "Join", "Set", "Values"]
TAINTED = {"Private", "PrivacyUnitPreserving"}


def has_random(e):
    if isinstance(e, dict):
        if e.get("e") == "Function" and e.get("f") == "Random":
            return True
        return any(has_random(v) for v in e.values())
    if isinstance(e, list):
        return any(has_random(v) for v in e)
    return False


def paths_to_protected(rel, prefix=None):
    prefix = (prefix or []) + [rel]
    if rel["k"] == "Table":
        if tuple(rel.get("path") or []) in rules.PROTECTED_PATHS:
            yield prefix
        return
    for key in ("input", "left", "right"):
        if key in rel:
            yield from paths_to_protected(rel[key], prefix)


def main():
    tier = sys.argv[1] if len(sys.argv) > 1 else "quick"
    ck = Check(PID, tier, "other")
    tq = 30.0 if tier == "quick" else 120.0
    driver.build()
    shapes = rules.corpus(tier, seed())
    ext = rules.extract(shapes)
    table = {}      # distinct rule rows
    queries, meta = [], {}
    n_prog = 0
    labelings = 0
    entry_ok = []
    for (shape, syn), job, ans in ext:
        o = ans.get("ok")
        if "timeout" in ans or "crash" in ans or "panic" in ans:
            ck.inconclusive("rule extraction failed on %s: %s" % (rules.sql_of(shape), json.dumps(ans)[:200]))   # never skipped silently
            continue
        if not isinstance(o, dict) or "Hard" not in o:
            continue
        n_prog += 1
        for strat in ("Soft", "Hard"):
            S = o.get(strat, {})
            if "set" not in S:
                ck.inconclusive("rule extraction panicked for %s/%s: %s" % (rules.sql_of(shape), strat, json.dumps(S)[:200]))
                continue
            nodes, root = rules.flatten(S["set"])
            for n in nodes:
                prot = rules.protected_leaf(n, job["tables"])
                for r in n["rules"]:
                    row = (n["kind"], prot, tuple(r["inputs"]), r["output"], r["param"], syn, strat)
                    table.setdefault(row[:5], set()).add((syn, strat))
            # tree level: taint
            decls, cons, out = rules.encode(nodes)
            taint = {}
            for n in nodes:  # post-order
                i = n["idx"]
                if n["kind"] == "Table" and rules.protected_leaf(n, job["tables"]):
                    taint[i] = rules.in_set(out[i], TAINTED | {"Public", "Published", "DifferentiallyPrivate"})  # anything but SyntheticData
                elif not n["children"]:
                    taint[i] = "false"
                else:
                    below = lor([taint[c] for c in n["children"]])
                    is_dp_reduce = land(["(= %s %d)" % (out[i], PIDX["DifferentiallyPrivate"])]) if n["kind"] == "Reduce" else "false"
                    taint[i] = land([below, lnot(is_dp_reduce)])
            bad = lor([land([taint[n["idx"]], rules.in_set(out[n["idx"]], CLEAN)]) for n in nodes])
            qid = "tree|%s|syn=%d|%s" % (json.dumps(shape), syn, strat)
            queries.append(dict(id=qid, script="\n".join(decls + ["(assert %s)" % c for c in cons] + ["(assert %s)" % bad]), values=["c%d" % n["idx"] for n in nodes]))
            meta[qid] = dict(kind="tree", shape=shape, syn=syn, strat=strat, nodes=nodes)
            sp = 1
            for n in nodes:
                sp *= max(1, len(n["rules"]))
            labelings += sp
        if "ok" in o.get("entry_dp", {}):
            entry_ok.append((shape, syn))
    # ---- rule level: symbolic row of the extracted table
    rows = sorted(table)
    if not rows:
        ck.inconclusive("no rule could be extracted")
        return ck.finish(dict(explanation="nothing extracted"))
    maxin = max(len(r[2]) for r in rows)
    decl = ["(declare-const r Int)", "(assert (and (<= 0 r) (< r %d)))" % len(rows)]

    def col(f, default="(- 1)"):
        t = default
        for i, row in reversed(list(enumerate(rows))):
            t = ite("(= r %d)" % i, f(row), t)
        return t

    kind = col(lambda row: str(KINDS.index(row[0])))
    prot = col(lambda row: "true" if row[1] else "false", "false")
    outp = col(lambda row: str(PIDX[row[3]]))
    nin = col(lambda row: str(len(row[2])))
    ins = [col(lambda row, k=k: str(PIDX[row[2][k]]) if k < len(row[2]) else "(- 1)") for k in range(maxin)]
    clean = lambda t: rules.in_set(t, CLEAN)
    all_in = lambda pred: land(["(=> (> %s %d) %s)" % (nin, k, pred(ins[k])) for k in range(maxin)])
    dp_reduce = land(["(= %s %d)" % (kind, KINDS.index("Reduce")), "(= %s 1)" % nin, "(= %s %d)" % (ins[0], PIDX["PrivacyUnitPreserving"]), "(= %s %d)" % (outp, PIDX["DifferentiallyPrivate"])])
    obligations = {
        "a-protected-leaf-never-clean": land([prot, rules.in_set(outp, {"Public", "Published", "DifferentiallyPrivate"})]),
        "b-clean-output-needs-clean-inputs": land(["(> %s 0)" % nin, clean(outp), lnot(all_in(clean)), lnot(dp_reduce)]),
        "c-public-needs-public-inputs": land(["(> %s 0)" % nin, "(= %s %d)" % (outp, PIDX["Public"]), lnot(all_in(lambda t: "(= %s %d)" % (t, PIDX["Public"])))]),
        "d-only-reduce-makes-dp": land(["(= %s %d)" % (outp, PIDX["DifferentiallyPrivate"]), lnot(dp_reduce)]),
        "e-synthetic-only-from-synthetic": land(["(> %s 0)" % nin, "(= %s %d)" % (outp, PIDX["SyntheticData"]), lnot(all_in(lambda t: "(= %s %d)" % (t, PIDX["SyntheticData"])))]),
    }
    for name, neg in obligations.items():
        qid = "rule|" + name
        queries.append(dict(id=qid, script="\n".join(decl + ["(assert %s)" % neg]), values=["r"]))
        meta[qid] = dict(kind="rule", name=name)
    # vacuity witnesses: the table contains a protected leaf row, a DP reduce row and a clean non-leaf row
    for wname, cond in (("protected-leaf", prot), ("dp-reduce", dp_reduce), ("clean-inner", land(["(> %s 0)" % nin, clean(outp)]))):
        queries.append(dict(id="W|" + wname, script="\n".join(decl + ["(assert %s)" % cond]), values=["r"]))
        meta["W|" + wname] = dict(kind="witness")
    results = smt.solve_all(queries, tq, workers=14, order=["z3new", "cvc5"])
    ck.count(results)
    for r in results:
        info = meta[r["id"]]
        if info["kind"] == "witness":
            if r["status"] != "sat":
                ck.inconclusive("vacuity witness %s is %s: the extracted rule table lacks the rows the obligations talk about" % (r["id"], r["status"]))
            continue
        if r["status"] != "sat":
            continue
        if info["kind"] == "rule":
            row = rows[int(r["model"]["r"])]
            where = sorted(table[row])
            ck.violation("rule=%s/%s[%s]->%s%s" % (info["name"], row[0], ",".join(row[2]), row[3], "/protected-leaf" if row[1] else ""),
                         "the setter offers the rule %s: [%s] -> %s%s (seen with (synthetic, strategy) in %s), which breaks obligation %s" % (
                             row[0], ", ".join(row[2]), row[3], " on a protected table" if row[1] else "", where, info["name"]), dict(row=row, configs=where))
        else:
            lab = []
            for n in info["nodes"]:
                rr = n["rules"][int(r["model"]["c%d" % n["idx"]])]
                lab.append("%s[%s]: %s -> %s" % (n["kind"], n["name"], ",".join(rr["inputs"]) or "-", rr["output"]))
            ck.violation("tree=clean-label-above-tainted-leaf", "`%s` (synthetic=%s, %s) admits the consistent labeling %s" % (rules.sql_of(info["shape"]), info["syn"], info["strat"], lab),
                         dict(sql=rules.sql_of(info["shape"]), labeling=lab))
    # ---- entry filters: the labels the entry points accept (probed through the real entry points on single-label trees)
    # a Map over a protected table can only be Private/PUP/SD: rewrite_with_differential_privacy must refuse it without synthetic data
    d = driver.Driver(60.0)
    probe = d.call(dict(op="rules", tables=rules.tables(), privacy_unit=rules.PRIVACY_UNIT, dp=dict(epsilon=1.0, delta=1e-3), synthetic=False, sql="SELECT id, a FROM prot"))
    e = probe.get("ok", {}).get("entry_dp", {})
    if "ok" in e:
        ck.violation("entry=dp-accepts-tainted-root", "rewrite_with_differential_privacy returns a relation for `SELECT id, a FROM prot` without synthetic data (root can only be Private / PrivacyUnitPreserving)", dict(answer=e))
    # ---- IR level: structural walk of what the compiler actually returned
    walked = bad_paths = 0
    todo = entry_ok if tier != "quick" else entry_ok[:40]
    jobs = [dict(op="rewrite", mode="dp", tables=rules.tables(), privacy_unit=rules.PRIVACY_UNIT, dp=dict(epsilon=1.0, delta=1e-3), synthetic=syn, sql=rules.sql_of(shape)) for shape, syn in todo]
    sql_text = lambda sh: sh if isinstance(sh, str) else rules.sql_of(sh)
    d.close()
    answers = driver.parallel_batch(jobs, workers=12, timeout=120.0)
    for (shape, syn), a in zip(todo, answers):
        if "ok" not in a:
            continue
        rel = a["ok"]["rewritten"]
        for path in paths_to_protected(rel):
            walked += 1
            up = list(reversed(path))  # leaf ... root
            red = [i for i, n in enumerate(up) if n["k"] == "Reduce"]
            ok = False
            for i in red:
                if any(n["k"] == "Map" and has_random(n.get("projection")) for n in up[i + 1:]):
                    ok = True
            if not ok:
                bad_paths += 1
                ck.violation("ir=path-without-noised-aggregation", "`%s` (synthetic=%s): the relation returned by rewrite_with_differential_privacy reads the protected table %s through the path %s with no aggregation followed by a noise-adding map" % (
                    sql_text(shape), syn, ".".join(up[0].get("path", [])), " < ".join(n["k"] for n in up)), dict(sql=sql_text(shape), synthetic=syn))
    # ---- S: a rewriting that reports NO privacy cost must not depend on the protected rows ------------------------------
    # Key-only reduces (GROUP BY / DISTINCT / MIN / MAX of grouping keys whose values are enumerable, hence public) compile to
    # relations without any noise: the structural criterion above does not apply to them (the correct relation still reads the
    # protected table, through a LEFT JOIN from the public key list that makes the result data independent). They are decided
    # semantically: the returned relation is executed symbolically (engine S) on a database D and on D minus all rows of one
    # unit u; the solver looks for a D and a u on which the two result bags differ. Replay on SQLite.
    import symrel, exprsem, sqlrun, pucat, mir as mir_, c05, c01
    from smt import lnot as lnot_
    KEY_ONLY = ["SELECT c FROM prot GROUP BY c", "SELECT DISTINCT c FROM prot", "SELECT c, max(c) AS m FROM prot GROUP BY c", "SELECT c FROM child GROUP BY c",
                "SELECT c FROM (SELECT c, a + 1 AS a FROM prot WHERE a > 1) AS s0 GROUP BY c", "SELECT s0.c AS c FROM (SELECT c FROM prot GROUP BY c) AS s0 JOIN pub AS s1 ON s0.c = s1.c",
                "SELECT DISTINCT c FROM clinic.patients", "SELECT c, min(c) AS lo, max(c) AS hi FROM prot WHERE a > 2 GROUP BY c", "SELECT c, b FROM prot GROUP BY c, b", "SELECT id FROM prot GROUP BY id"]
    # the corpus tables plus two columns whose types are value sets (enumerable, hence public grouping keys)
    ktabs = [dict(t, fields=t["fields"] + [dict(name="c", dt=driver.t_int((1, 1), (2, 2), (3, 3)), constraint=None), dict(name="b", dt=driver.t_int((0, 0), (1, 1)), constraint=None)]) for t in rules.tables()]
    kjobs = [dict(op="rewrite", mode="dp", tables=ktabs, privacy_unit=rules.PRIVACY_UNIT, dp=dict(epsilon=1.0, delta=1e-3), synthetic=False, sql=q_, render=True) for q_ in KEY_ONLY]
    kans = driver.parallel_batch(kjobs, workers=8, timeout=120.0)
    fns_ = mir_.parse_mir(mir_.dump_mir()[0])
    pu_ = dict(tables=[dict(t, table=("clinic_patients" if t["table"] == "patients" else t["table"])) for t in rules.PRIVACY_UNIT["tables"]], hash=False)
    sq, smeta, s_zero_cost = [], {}, 0
    for qi, (q_, a) in enumerate(zip(KEY_ONLY, kans)):
        if "panic" in a:
            ck.note("rewrite_with_differential_privacy panics on `%s` (C18 territory): %s" % (q_, a["panic"][:160]))
        if "ok" not in a:
            continue
        ev = a["ok"].get("dp_event_s", "")
        if "Gaussian" in ev or "Epsilon" in ev:
            continue   # a cost is reported: C01 / C03 / C04 territory
        s_zero_cost += 1
        rel = a["ok"]["rewritten"]
        try:
            ctx = symrel.Ctx(fns_)
            db, ctx_tables = {}, {}
            for p_, tj in symrel.tables_of(rel).items():
                r_ = symrel.make_table(ctx, tj, 2)
                db[p_] = r_
                ctx_tables[p_] = (tj, r_)
            for t in pu_["tables"]:
                # ownership follows foreign-key paths: the referred tables have to exist on the symbolic side as well
                if not any(p_[-1] == t["table"] or "_".join(p_) == t["table"] for p_ in db):
                    tj = [x for x in ktabs if x["name"] == t["table"]][0]
                    tj2 = dict(name=tj["name"], path=[tj["name"]], size=[[str(tj["size"][0]), str(tj["size"][1])]], schema=[dict(name=f["name"], dt=f["dt"], constraint=f["constraint"]) for f in tj["fields"]])
                    r_ = symrel.make_table(ctx, tj2, 2)
                    db[(tj["name"],)] = r_
                    ctx_tables[(tj["name"],)] = (tj2, r_)
            dbk = {((("clinic_patients",) if p_ == ("clinic", "patients") else p_)): r_ for p_, r_ in db.items()}
            u = ctx.new("i64", "unit")
            owned = pucat.owner_terms(pu_, dbk, u)
            owned = {("clinic" if t_ == "clinic_patients" else t_): o_ for t_, o_ in owned.items()}
            without = {}
            for p_, r_ in db.items():
                if p_[0] in owned:
                    without[p_] = symrel.Rel(r_.cols, [symrel.Row(land([x.p, lnot(o_)]), x.cells) for x, o_ in zip(r_.rows, owned[p_[0]])], r_.name)
                else:
                    without[p_] = r_
            A = symrel.eval_rel(ctx, rel, db, {})
            B = symrel.eval_rel(ctx, rel, without, {})
        except exprsem.Unsupported as ex:
            ck.inconclusive("part S: `%s` cannot be executed symbolically: %s" % (q_, str(ex)[:120]))
            continue
        cols = [f["name"] for f in rel["schema"]]
        diff = [land([x.p, "(not (= %s %s))" % (c05.count_eq(A.rows, x, cols), c05.count_eq(B.rows, x, cols))]) for x in A.rows + B.rows]
        nopanic = [lnot(p_) for p_ in ctx.bank.panics]
        some_owned = lor([land([x.p, o_]) for p_, r_ in db.items() if p_[0] in owned for x, o_ in zip(r_.rows, owned[p_[0]])])
        sq.append(dict(id="S/%d" % qi, script=ctx.script(nopanic + [lor(diff)]), values=symrel.value_names(ctx_tables) + [u]))
        smeta["S/%d" % qi] = dict(sql=q_, rel=rel, ctx_tables=ctx_tables, u=u, rendered=(a.get("sql") or {}).get("sqlite"), owned=owned, event=ev)
        sq.append(dict(id="SW/%d" % qi, script=ctx.script(nopanic + [some_owned]), values=[]))
        smeta["SW/%d" % qi] = dict(witness=True)
    sres = smt.solve_all(sq, 30.0, workers=8) if sq else []
    sres = smt.replayable_models(sq, sres, 30.0, workers=8) if sq else []
    ck.count(sres)
    s_conf = 0
    for r in sres:
        info = smeta[r["id"]]
        if info.get("witness"):
            if r["status"] != "sat":
                ck.inconclusive("part S vacuity witness %s is %s" % (r["id"], r["status"]))
            continue
        if r["status"] != "sat":
            continue
        dbm = symrel.model_db(info["ctx_tables"], r["model"])
        uval = int(r["model"][info["u"]])
        pyo = pucat.py_owner(pu_, {((("clinic_patients",) if p_ == ("clinic", "patients") else p_)): rows_ for p_, rows_ in dbm.items()})
        db2 = {}
        for p_, rows_ in dbm.items():
            tn = "clinic_patients" if p_ == ("clinic", "patients") else p_[0]
            db2[p_] = [row for row, o_ in zip(rows_, pyo[tn])if o_ != uval] if tn in pyo else rows_
        shown = {".".join(p_): rows_ for p_, rows_ in dbm.items()}
        try:
            res = []
            for dbx in (dbm, db2):
                con = sqlrun.connect(random_value=0.5)
                sqlrun.load(con, {p_: tj for p_, (tj, _) in info["ctx_tables"].items()}, dbx)
                res.append(sorted(map(repr, sqlrun.run(con, c01.sqlite_fix(info["rendered"]))[1])))
        except Exception as ex:
            ck.inconclusive("part S: SQLite replay failed for `%s`: %s" % (info["sql"], str(ex)[:200]))
            continue
        if res[0] != res[1]:
            s_conf += 1
            ck.violation("dp=zero-cost-result-depends-on-protected-rows", "`%s`: rewrite_with_differential_privacy reports the event %s, yet the relation it returns gives %s on D = %s and %s once the rows of unit %d are removed" % (
                info["sql"], info["event"] or "NoOp", res[0], shown, res[1], uval), dict(sql=info["sql"], db=shown, unit=uval, with_unit=res[0], without_unit=res[1]))
        else:
            ck.inconclusive("part S: counterexample for `%s` did not reproduce on SQLite (D = %s, unit %d)" % (info["sql"], shown, uval))
    ck.note("part S: %d key-only programs, %d compiled with a zero-cost event and executed symbolically on D and D minus a unit" % (len(KEY_ONLY), s_zero_cost))
    if s_zero_cost == 0:
        ck.inconclusive("part S: no key-only program compiles with a zero-cost event (vacuous)")
    ck.samples = [dict(rule="%s: [%s] -> %s%s" % (r[0], ", ".join(r[2]), r[3], " (protected table)" if r[1] else "")) for r in rows[:12]]
    cov = dict(
        explanation="rule level: %d distinct rule rows extracted from the real setter, 5 inductive obligations decided by the solver over a symbolic row (covers relation trees of any depth); tree level: all labelings of %d corpus trees (%d labelings) decided by the solver; IR level: %d root-to-protected-table paths of %d returned relations walked structurally (not a solver claim)" % (
            len(rows), n_prog * 2, labelings, walked, len(todo)),
        zero_cost_programs_executed_symbolically=s_zero_cost, rule_rows=len(rows), programs=n_prog, labelings=labelings, ir_paths_walked=walked, ir_bad_paths=bad_paths,
        obligation_names=sorted(obligations), obligations=len(obligations), discharged=sum(1 for r in results if meta[r['id']]['kind']=='rule' and r['status']=='unsat'),
        bounds=dict(configurations="synthetic data on/off x Soft/Hard x protected (direct id, qualified path, foreign-key path) / public tables",
                    outside=["the lineage formulation over arbitrary emitted IR is only walked structurally on the corpus", "semantic non-interference is C01/C04/C05's business"]),
        evaluations=len(queries), distinct_nontrivial=len(set(q["script"] for q in queries)),
    )
    return ck.finish(cov, assumptions=["which tables are protected is resolved independently of the code under test (by declared path)",
                                       "noise-adding map = a Map whose projection contains a Random function"])


if __name__ == "__main__":
    sys.exit(main())
