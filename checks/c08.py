#!/usr/bin/env python3-vt
"""C08 - SQL -> Relation -> SQL preserves query results (restricted fragment).

For each SQL text q of the fragment the real compiler parses q into a relation and renders it back (driver: sql::parse +
Relation::try_from + ast::Query::from, PostgreSQL rendering) giving q'. Both texts are then executed SYMBOLICALLY by an
independent SQL front end (lib/sqlfront.py: own grammar, name resolution, grouping, USING / NATURAL handling, set
operations, ordering; it shares only the scalar-function and aggregate arithmetic with SymRel) over one symbolic
database of <= K rows per table. The solver searches every such database for
   - a row whose multiplicity differs between the two results (bag inequality),
   - for queries with a top-level ORDER BY: two rows of equal rank that differ,
and the column count / output names of aliased and plain-column items are compared directly. Every counterexample
database is loaded into SQLite and both q and q' (SQLite rendering) are executed there; only a difference that SQLite
reproduces is reported.
"""
import os, sys, json, re, random, fractions
sys.path.insert(0, os.path.join(os.path.dirname(os.path.abspath(__file__)), "..", "lib"))
sys.path.insert(0, os.path.dirname(os.path.abspath(__file__)))
import mir, smt, driver, symrel, sqlrun, exprsem, progs, sqlfront
from lark.exceptions import LarkError
from common import Check, seed, parallel_build
from smt import land, lor, lnot, ite

PID = "C08"

EXTRA = [
    # expressions mixing aggregates and scalars
    "SELECT sum(a) + count(*) AS v FROM t",
    "SELECT a, sum(g) * 2 + a AS v FROM t GROUP BY a",
    "SELECT c, sum(a) / count(a) AS r, max(g) - min(g) AS w FROM t GROUP BY c",
    "SELECT 1 + sum(a + g) AS v FROM t WHERE c = 1",
    "SELECT c, CASE WHEN sum(a) > 5 THEN 1 ELSE 0 END AS big FROM t GROUP BY c",
    # GROUP BY on expressions, aliases and positions
    "SELECT a + c AS k2, count(*) AS n FROM t GROUP BY a + c",
    "SELECT a + c AS k2, count(*) AS n FROM t GROUP BY k2",
    "SELECT a * 2 AS d, sum(g) AS s FROM t GROUP BY a * 2",
    "SELECT c AS cc, sum(g) AS s FROM t GROUP BY cc",
    "SELECT c, count(*) AS n FROM t GROUP BY 1",
    "SELECT count(*) AS n, c FROM t GROUP BY c",
    "SELECT sum(g) AS s FROM t GROUP BY c",
    # a select alias that is also the name of an input column (GROUP BY / ORDER BY / WHERE see the input column first)
    "SELECT abs(g) AS g, count(*) AS n FROM t GROUP BY g",
    "SELECT a + 1 AS a, sum(g) AS s FROM t GROUP BY a",
    "SELECT c * 0 AS c, count(*) AS n FROM t GROUP BY c",
    "SELECT g AS a, a AS g FROM t WHERE a > 2",
    "SELECT -g AS g, a FROM t ORDER BY g",
    "SELECT abs(g) AS g, sum(a) AS s FROM t GROUP BY g HAVING sum(a) > 1",
    # HAVING
    "SELECT c, sum(a) AS s FROM t GROUP BY c HAVING sum(a) > 3",
    "SELECT c, sum(a) AS s FROM t GROUP BY c HAVING count(*) > 1",
    "SELECT c FROM t GROUP BY c HAVING max(g) > 0 AND min(a) < 5",
    "SELECT a, count(g) AS n FROM t WHERE g > -2 GROUP BY a HAVING count(g) >= 1",
    # DISTINCT
    "SELECT DISTINCT a + c AS v FROM t",
    "SELECT DISTINCT c, a > 3 AS big FROM t",
    "SELECT count(DISTINCT c) AS n FROM t",
    # CTEs and derived tables
    "WITH z AS (SELECT a, g FROM t WHERE a > 2) SELECT a, g FROM z WHERE g < 2",
    "WITH z AS (SELECT c, sum(a) AS s FROM t GROUP BY c) SELECT s FROM z WHERE c = 1",
    "WITH z (p, q) AS (SELECT a, g FROM t) SELECT p + q AS r FROM z",
    "WITH z AS (SELECT a FROM t), y AS (SELECT a FROM z WHERE a > 1) SELECT a FROM y",
    "SELECT z.a AS a, z.s AS s FROM (SELECT a, sum(g) AS s FROM t GROUP BY a) AS z",
    "SELECT s + 1 AS v FROM (SELECT sum(a) AS s FROM t) AS z",
    "SELECT w.v AS v FROM (SELECT a + g AS v FROM t) AS w WHERE w.v > 0",
    # the same CTE / alias name at two nesting levels (the inner definition shadows the outer one)
    "WITH v AS (SELECT a FROM t WHERE a > 5) SELECT s.a AS a FROM (WITH v AS (SELECT a FROM t WHERE a < 3) SELECT a FROM v) AS s",
    "WITH v AS (SELECT a FROM t WHERE a > 5), z AS (WITH v AS (SELECT a FROM t WHERE a < 3) SELECT a FROM v) SELECT v.a AS x, z.a AS y FROM v CROSS JOIN z",
    "WITH v AS (SELECT a, g FROM t) SELECT v.a AS a, s.n AS n FROM v JOIN (WITH v AS (SELECT c, count(*) AS n FROM t GROUP BY c) SELECT c, n FROM v) AS s ON v.a = s.c",
    "SELECT z.a AS a FROM (SELECT a FROM (SELECT a + 1 AS a FROM t) AS z WHERE a > 2) AS z",
    "WITH t2 AS (SELECT a FROM t WHERE a > 1) SELECT x.a AS a FROM t2 AS x JOIN t2 AS y ON x.a = y.a",
    # joins: ON / USING / NATURAL, chains, qualified and aliased names
    "SELECT id, x FROM t JOIN u USING (id)",
    "SELECT id, t.a AS ta, u.a AS ua FROM t JOIN u USING (id)",
    "SELECT id FROM t LEFT JOIN u USING (id)",
    "SELECT id, x FROM t RIGHT JOIN u USING (id)",
    "SELECT id, g, x FROM t FULL JOIN u USING (id)",
    "SELECT id, a FROM t JOIN u USING (id, a)",
    "SELECT id, k, a FROM t NATURAL JOIN u",
    "SELECT a, x FROM t NATURAL LEFT JOIN u",
    "SELECT p.a AS pa, q.x AS qx FROM t AS p JOIN u AS q ON p.id = q.id",
    "SELECT p.a AS pa, q.a AS qa FROM t AS p JOIN t AS q ON p.id = q.k",
    "SELECT t.a AS ta, u.x AS ux, v.g AS vg FROM t JOIN u ON t.id = u.id JOIN t AS v ON u.k = v.k",
    "SELECT t.a AS ta, v.g AS vg FROM t LEFT JOIN u ON t.id = u.id LEFT JOIN t AS v ON u.k = v.k",
    "SELECT t.a AS ta, u.x AS ux FROM t, u WHERE t.id = u.id",
    "SELECT x FROM u JOIN t ON u.id = t.id WHERE t.a > 2 AND u.x < 5",
    "SELECT t.c AS c, sum(u.x) AS s FROM t JOIN u ON t.id = u.id GROUP BY t.c",
    "SELECT u.d AS d, count(*) AS n FROM t RIGHT JOIN u ON t.g = u.d GROUP BY u.d",
    # set operations
    "SELECT a FROM t UNION ALL SELECT a FROM u",
    "SELECT a, c FROM t UNION SELECT a, d FROM u",
    "SELECT a FROM t WHERE a > 3 UNION SELECT a FROM t WHERE a < 2",
    "SELECT a FROM t EXCEPT SELECT a FROM u WHERE x > 1",
    "SELECT c FROM t INTERSECT SELECT d FROM u",
    "SELECT a FROM t UNION SELECT a FROM u UNION SELECT g FROM t",
    # ORDER BY / LIMIT / OFFSET
    "SELECT a, g FROM t ORDER BY a",
    "SELECT a, g FROM t ORDER BY g DESC, a",
    "SELECT a AS p FROM t ORDER BY p DESC",
    "SELECT a, g FROM t ORDER BY a + g",
    "SELECT a FROM t ORDER BY g",
    "SELECT c, sum(a) AS s FROM t GROUP BY c ORDER BY s DESC",
    "SELECT c, sum(a) AS s FROM t GROUP BY c ORDER BY c LIMIT 1",
    "SELECT a FROM t ORDER BY a LIMIT 1",
    "SELECT a FROM t ORDER BY a DESC LIMIT 1 OFFSET 1",
    "SELECT a FROM t WHERE g > 0 ORDER BY a LIMIT 2",
    "SELECT a FROM (SELECT a FROM t ORDER BY a LIMIT 1) AS z",
    # scalars
    "SELECT a FROM t WHERE a BETWEEN 2 AND 5",
    "SELECT a FROM t WHERE a NOT IN (1, 2)",
    "SELECT CASE WHEN a > 5 THEN 1 WHEN a > 2 THEN 2 ELSE 3 END AS v FROM t",
    "SELECT CASE c WHEN 1 THEN a WHEN 2 THEN g ELSE 0 END AS v FROM t",
    "SELECT a FROM t WHERE b IS NOT NULL AND b > 0",
    "SELECT COALESCE(d, 0) + a AS v FROM u",
    "SELECT a % c AS m FROM t",
    "SELECT -a + g AS v, a - -g AS w FROM t",
    "SELECT a, b FROM t WHERE b > 1 OR b IS NULL",
    "SELECT CAST(a AS FLOAT) / 2 AS h FROM t",
]


def random_program(rnd):
    r = rnd.random()
    num = lambda: rnd.choice(["a", "g", "c", "a + g", "a * c", "g - c", "a + 1"])
    agg = lambda: "%s(%s)" % (rnd.choice(["sum", "count", "min", "max", "avg"]), rnd.choice(["a", "g", "c", "b"]))
    if r < 0.35:
        key = rnd.choice(["a", "c", "g", "a + c", "c * 2", "a - g"])
        al = "k1"
        items = ["%s AS %s" % (key, al)]
        for i in range(rnd.choice([1, 2])):
            e = agg()
            if rnd.random() < 0.5:
                e = "%s %s %s" % (e, rnd.choice(["+", "-", "*"]), rnd.choice([agg(), "1", "2"]))
            items.append("%s AS v%d" % (e, i))
        if rnd.random() < 0.3:
            items = items[1:] + items[:1]
        q = "SELECT %s FROM t" % ", ".join(items)
        if rnd.random() < 0.4:
            q += " WHERE " + rnd.choice(["a > 2", "g < 1", "c <> 2", "b IS NULL"])
        q += " GROUP BY " + rnd.choice([key, al])
        if rnd.random() < 0.4:
            q += " HAVING %s %s %d" % (agg(), rnd.choice([">", "<", ">="]), rnd.randint(0, 4))
        if rnd.random() < 0.3:
            q += " ORDER BY " + rnd.choice([al, "v0", al + " DESC"])
        return q
    if r < 0.6:
        kind = rnd.choice(["JOIN", "LEFT JOIN", "RIGHT JOIN", "FULL JOIN"])
        how = rnd.choice(["USING (id)", "USING (k)", "USING (id, k)", "USING (a)", "ON t.id = u.id", "ON t.k = u.k AND t.a < u.a"])
        if "USING" in how:
            cols = re.findall(r"\w+", how.split("(")[1])
            sel = cols + rnd.sample(["t.g AS tg", "u.x AS ux", "u.d AS ud", "t.c AS tc"], rnd.choice([1, 2]))
        else:
            sel = rnd.sample(["t.g AS tg", "u.x AS ux", "u.d AS ud", "t.c AS tc", "t.id AS ti", "u.id AS ui"], rnd.choice([2, 3]))
        q = "SELECT %s FROM t %s u %s" % (", ".join(sel), kind, how)
        if rnd.random() < 0.3:
            q += " WHERE " + rnd.choice(["t.g > 0", "u.x < 5", "t.c = 1"])
        return q
    if r < 0.8:
        inner = rnd.choice(["SELECT a, g, c FROM t WHERE a > 1", "SELECT a, sum(g) AS g, count(*) AS c FROM t GROUP BY a", "SELECT a + 1 AS a, g, c FROM t"])
        outer = rnd.choice(["SELECT a, g FROM z WHERE c > 0", "SELECT sum(g) AS s FROM z", "SELECT a, g + c AS w FROM z ORDER BY a", "SELECT c, count(*) AS n FROM z GROUP BY c"])
        return rnd.choice(["WITH z AS (%s) %s" % (inner, outer), outer.replace("FROM z", "FROM (%s) AS z" % inner)])
    o = rnd.choice(["ORDER BY a", "ORDER BY g DESC", "ORDER BY a + g", "ORDER BY c, a DESC"])
    q = "SELECT %s AS x, a, g FROM t %s" % (num(), o)
    if rnd.random() < 0.6:
        q += " LIMIT %d" % rnd.randint(1, 2)
        if rnd.random() < 0.5:
            q += " OFFSET 1"
    return q


def output_names(tree):
    """names the SQL standard fixes: aliases and plain column references of the top-level select list; None elsewhere"""
    q = tree.children[0]
    body = [c for c in q.children if hasattr(c, "data") and c.data not in ("with_clause", "order_clause", "limit_clause", "offset_clause")][0]
    while body.data in ("union", "except_", "intersect"):
        body = [c for c in body.children if hasattr(c, "data") and c.data != "set_quant"][0]
    return body


G = {}


def build_task(t):
    fns, K, tjs = G["fns"], G["K"], G["tables"]
    sql, rendered = t["sql"], t["rendered"]
    try:
        ta, tb = sqlfront.parse(sql), sqlfront.parse(rendered)
    except LarkError as ex:
        return dict(unsupported="parse: " + str(ex).split("\n")[0][:60])
    try:
        ctx = symrel.Ctx(fns)
        tables, ctx_tables = {}, {}
        for name, tj in tjs.items():
            r = symrel.make_table(ctx, tj, K)
            tables[name] = r
            ctx_tables[(name,)] = (tj, r)
        fa = sqlfront.Front(ctx, tables)
        A = fa.query(ta.children[0], {})
    except exprsem.Unsupported as ex:
        return dict(unsupported=str(ex)[:60])
    try:
        B = fa.query(tb.children[0], {})
    except exprsem.Unsupported as ex:
        # the reference semantics accepts the original text but not the rendered one: either the rendered SQL is not valid
        # (decided by SQLite in the main process) or the front end lacks something (then it is counted as unsupported)
        return dict(rendered_rejected=str(ex)[:80], base=dict(sql=sql, rendered=rendered, rendered_sqlite=t["rendered_sqlite"]))
    names = symrel.value_names(ctx_tables)
    nopanic = [lnot(p) for p in ctx.bank.panics]
    out = []
    base = dict(sql=sql, rendered=rendered, rendered_sqlite=t["rendered_sqlite"], ctx_tables=ctx_tables, ordered=A.order is not None)
    na, nb = [c.name for c in A.cols], [c.name for c in B.cols]
    static = None
    if len(na) != len(nb):
        static = "the original query has %d columns %s, the rendered one %d %s" % (len(na), na, len(nb), nb)
    else:
        bad = [(x, y) for x, y in zip(na, nb) if x is not None and x != y]
        if bad:
            static = "output names differ: %s vs %s" % (na, nb)
    if static:
        return dict(static=static, base=base, queries=[])
    ka, kb = [c.key for c in A.cols], [c.key for c in B.cols]

    def ceq(x, y):
        if x.ty == y.ty:
            return symrel.cell_eq(x, y)
        if {x.ty, y.ty} <= {"i64", "f64"}:
            return lor([land([x.n, y.n]), land([lnot(x.n), lnot(y.n), sqlfront.eq_term(x, y, ctx)])])
        return land([x.n, y.n])   # differently typed non-null values are different

    def req(r, kr, s, ks):
        return land([ceq(r.cells[a], s.cells[b]) for a, b in zip(kr, ks)])
    slots = [(r, ka) for r in A.rows] + [(r, kb) for r in B.rows]
    diffs = []
    for r, kr in slots:
        ca = "(+ 0 %s)" % " ".join("(ite %s 1 0)" % land([s.p, req(r, kr, s, ka)]) for s in A.rows) if A.rows else "0"
        cb = "(+ 0 %s)" % " ".join("(ite %s 1 0)" % land([s.p, req(r, kr, s, kb)]) for s in B.rows) if B.rows else "0"
        diffs.append(land([r.p, "(not (= %s %s))" % (ca, cb)]))
    qid = "bag|%d" % t["pi"]
    out.append((dict(id=qid, script=ctx.script(nopanic + [lor(diffs)]), values=names), dict(base, what="bag")))
    if A.order is not None:
        if B.order is None:
            return dict(static="the original query is ordered (ORDER BY) but the rendered query does not end in an ordering node followed by order-preserving selections", base=base, queries=out)

        def rank(R_, i):
            bf = ["(ite %s 1 0)" % land([s.p, symrel.lex_before(R_.order[j], R_.order[i])]) for j, s in enumerate(R_.rows) if j != i]
            return "(+ 0 %s)" % " ".join(bf) if bf else "0"
        bad = []
        for i, r in enumerate(A.rows):
            for j, s in enumerate(B.rows):
                bad.append(land([r.p, s.p, "(= %s %s)" % (rank(A, i), rank(B, j)), lnot(req(r, ka, s, kb))]))
        out.append((dict(id="ord|%d" % t["pi"], script=ctx.script(nopanic + [lor(bad)]), values=names), dict(base, what="order")))
    if t["pi"] % 6 == 0:
        out.append((dict(id="W|%d" % t["pi"], script=ctx.script(nopanic + [lor([r.p for r in A.rows])]), values=[]), dict(what="witness", sql=sql)))
    return dict(queries=out, base=None)


def sqlite_rows(tj, dbm, sql):
    con = sqlrun.connect()
    sqlrun.load(con, tj, dbm)
    return sqlrun.run(con, sql)


def strict(sql):
    """SQLite reads a double-quoted identifier that resolves to nothing as a string literal; [name] is always an identifier"""
    return re.sub(r'"((?:[^"]|"")+)"', lambda m: "[" + m.group(1).replace('""', '"') + "]", sql)


def norm(v):
    if v is None:
        return None
    if isinstance(v, (int, float)):
        return round(float(v), 6)
    return v


def main():
    tier = sys.argv[1] if len(sys.argv) > 1 else "quick"
    ck = Check(PID, tier, "translation_validation")
    tq = 30.0 if tier == "quick" else 120.0
    K = 2
    driver.build()
    path, _ = mir.dump_mir()
    fns = mir.parse_mir(path)
    cat = progs.catalogue(K)
    d = driver.Driver(60.0)
    tjs = {}
    for t in cat:
        a = d.call(dict(op="relation", tables=cat, sql="SELECT * FROM %s" % t["name"]))
        for p_, tj in symrel.tables_of(a["ok"]).items():
            tjs[p_[-1]] = tj
    d.close()
    rnd = random.Random(seed() * 7919 + 3)
    programs = list(progs.FIXED) + EXTRA
    seen = set(programs)
    want = len(programs) + (40 if tier == "quick" else 600)
    while len(programs) < want:
        p = random_program(rnd)
        if p not in seen:
            seen.add(p)
            programs.append(p)
    answers = driver.parallel_batch([dict(op="relation", tables=cat, sql=q, render=True) for q in programs], workers=12, timeout=60.0)
    stats = dict(programs=0, refused=0, refused_samples=[], unsupported={}, panics=0)
    tasks = []
    for pi, (sql, ans) in enumerate(zip(programs, answers)):
        if "panic" in ans:
            stats["panics"] += 1
            ck.note("compiling `%s` panics (C18 territory): %s" % (sql, ans["panic"]))
            continue
        if "ok" not in ans:
            stats["refused"] += 1
            if len(stats["refused_samples"]) < 12:
                stats["refused_samples"].append("%s: %s" % (sql, str(ans.get("err"))[:80]))
            continue
        r = ans.get("sql") or {}
        if not isinstance(r.get("postgres"), str):
            ck.inconclusive("no rendering for `%s`" % sql)
            continue
        tasks.append(dict(pi=pi, sql=sql, rendered=r["postgres"], rendered_sqlite=r.get("sqlite")))
    G.update(fns=fns, K=K, tables=tjs)
    queries, meta, statics, rejected = [], {}, [], []
    for t, res in zip(tasks, parallel_build(tasks, build_task)):
        if "unsupported" in res:
            stats["unsupported"][res["unsupported"]] = stats["unsupported"].get(res["unsupported"], 0) + 1
            continue
        if "rendered_rejected" in res:
            rejected.append((res["rendered_rejected"], res["base"]))
            continue
        stats["programs"] += 1
        if res.get("static"):
            statics.append((res["static"], res["base"]))
        for q, mt in res["queries"]:
            queries.append(q)
            meta[q["id"]] = mt
        if t["pi"] % 10 == 0:
            ck.sample(dict(sql=t["sql"], rendered=t["rendered"][:300]))
    results = smt.solve_all(queries, tq, workers=14, order=["z3new", "cvc5"], progress=200)
    results = smt.replayable_models(queries, results, tq, workers=14, order=["z3new", "cvc5"])
    ck.count(results)
    tj_by_path = {(n,): tj for n, tj in tjs.items()}
    n_w = replayed = 0

    def shape(sql):
        s = sql.upper()
        tags = [k for k in ("USING", "NATURAL", "FULL JOIN", "LEFT JOIN", "RIGHT JOIN", "JOIN", "GROUP BY", "HAVING", "DISTINCT", "UNION", "INTERSECT", "EXCEPT", "ORDER BY", "LIMIT", "WITH") if k in s]
        return "+".join(tags[:3]) or "select"
    import c01
    def role(kind, base, why=""):
        """role of a counterexample: the construct of the original text that the defect needs"""
        up = base["sql"].upper()
        if kind == "names" and any(k in up for k in (" UNION ", " INTERSECT ", " EXCEPT ")):
            return "roundtrip=names/set-operation-sides-named-differently"
        if kind == "rows" and re.search(r"GROUP BY\s+(\d+\s*,\s*)*\d+\b", up):
            return "roundtrip=rows/group-by-position"
        if kind == "invalid" and why.startswith("unknown column") and "ORDER BY" in up:
            return "roundtrip=rendered-sql-invalid/order-by-column-outside-select-list"
        return "roundtrip=%s/%s" % (kind, shape(base["sql"]))
    for why, base in rejected:
        # original text runs, rendered text does not: run both on the empty database
        empty = {p_: [] for p_ in tj_by_path}
        try:
            sqlite_rows(tj_by_path, empty, base["sql"])
        except Exception as ex:
            stats["unsupported"]["original not executable on SQLite"] = stats["unsupported"].get("original not executable on SQLite", 0) + 1
            continue
        try:
            sqlite_rows(tj_by_path, empty, strict(c01.sqlite_fix(base["rendered_sqlite"])))
            stats["unsupported"]["rendered: " + why] = stats["unsupported"].get("rendered: " + why, 0) + 1
        except Exception as ex:
            replayed += 1
            ck.violation(role("invalid", base, why), "`%s` runs, but the SQL rendered from its relation is rejected (reference front end: %s; SQLite: %s): %s" % (base["sql"], why, str(ex)[:120], base["rendered"][:500]),
                         dict(sql=base["sql"], rendered=base["rendered_sqlite"], error=str(ex)))
    for why, base in statics:
        # names / width / order structure: confirm on SQLite with the empty database (column names) when it is about names
        ck.violation(role("names" if why.startswith("output names") else "structure", base), "`%s` -> `%s`: %s" % (base["sql"], base["rendered"][:400], why), dict(sql=base["sql"], rendered=base["rendered"]))
    for r in results:
        info = meta[r["id"]]
        if info["what"] == "witness":
            n_w += r["status"] == "sat"
            continue
        if r["status"] != "sat":
            continue
        replayed += 1
        dbm = symrel.model_db(info["ctx_tables"], r["model"])
        shown = {".".join(p_): rows for p_, rows in dbm.items()}
        try:
            n0, rows0 = sqlite_rows(tj_by_path, dbm, info["sql"])
            n1, rows1 = sqlite_rows(tj_by_path, dbm, strict(c01.sqlite_fix(info["rendered_sqlite"])))
        except Exception as ex:
            ck.inconclusive("SQLite replay failed for `%s`: %s" % (info["sql"], str(ex)[:200]))
            continue
        a = [tuple(norm(v) for v in row) for row in rows0]
        b = [tuple(norm(v) for v in row) for row in rows1]
        differs = (a != b) if (info["what"] == "order") else (sorted(a, key=repr) != sorted(b, key=repr))
        if differs:
            ck.violation(role("order" if info["what"] == "order" else "rows", info),
                         "`%s` returns %s but the SQL rendered from its relation returns %s on %s; rendered: %s" % (info["sql"], a, b, shown, info["rendered"][:600]),
                         dict(sql=info["sql"], rendered=info["rendered_sqlite"], db=shown, original_rows=a, rendered_rows=b))
        else:
            ck.inconclusive("counterexample %s did not reproduce on SQLite: `%s` on %s gives %s for both texts" % (r["id"], info["sql"], shown, a))
    if n_w == 0 and any(m["what"] == "witness" for m in meta.values()):
        ck.inconclusive("no vacuity witness is satisfiable")
    cov = dict(
        programs=stats["programs"], refused_by_compiler=stats["refused"], refused_samples=stats["refused_samples"], skipped_unsupported=stats["unsupported"], compile_panics=stats["panics"],
        disagreements_checked=replayed, witnesses_satisfiable=n_w, states=len(queries), transitions=len(queries), traces_validated_against_impl=replayed,
        bounds=dict(rows_per_table=K, tables=len(tjs), fragment="select lists mixing aggregates and scalars, GROUP BY on expressions / aliases / positions, HAVING, DISTINCT, CTEs, derived tables, join chains with ON / USING / NATURAL, "
                    "UNION [ALL] / INTERSECT / EXCEPT, ORDER BY / LIMIT / OFFSET, qualified and aliased names (fixed list + seeded generator)",
                    outside=["databases with more than %d rows per table" % K, "string literals / identifiers with special characters (text is outside the solver encoding)", "float rounding (reals)", "ties under ORDER BY / LIMIT (assumed away)",
                             "names of unaliased expression columns (engine specific)", "programs the reference front end does not support (counted in skipped_unsupported)"]),
        evaluations=len(queries), distinct_nontrivial=len(set(q["script"] for q in queries)),
    )
    return ck.finish(cov, assumptions=["reference SQL semantics of lib/sqlfront.py (written independently of the compiler; shares scalar kernels and aggregate arithmetic with SymRel)",
                                       "a violation is reported only when SQLite reproduces the difference between the original and the rendered text on the solver's database",
                                       "`SELECT * FROM x` without other clauses preserves the order of x"])


if __name__ == "__main__":
    sys.exit(main())
