#!/usr/bin/env python3-vt
"""C13 - the rewriting search is complete, well-typed and picks a best-scoring derivation.

For every program of the corpus (relation trees of all small shapes x synthetic data on/off x both strategies) the real
set_rewriting_rules -> map_rewriting_rules(Eliminator) -> select_rewriting_rules(Selector) and the real entry points
are run (driver); the solver then reasons over ALL labelings of the tree (one finite-domain variable per node):
  select-complete   no consistent labeling is missing from the derivations the selector returned
  eliminate-sound   no rule removed by the Eliminator takes part in a consistent labeling
  entry-complete    the entry point reports `unreachable` iff no consistent labeling has an acceptable root label
  entry-optimal     no consistent acceptable labeling scores strictly higher than the derivation the entry point applied
Well-typedness of each returned derivation is re-checked concretely (and counted as such).
"""
import os, sys, json, fractions
sys.path.insert(0, os.path.join(os.path.dirname(os.path.abspath(__file__)), "..", "lib"))
import smt, driver, rules
from rules import PIDX, PROPS
from common import Check, seed
from smt import land, lor, lnot

PID = "C13"


def main():
    tier = sys.argv[1] if len(sys.argv) > 1 else "quick"
    ck = Check(PID, tier, "model_checking")
    tq = 30.0 if tier == "quick" else 120.0
    driver.build()
    d = driver.Driver(30.0)
    st = d.call(dict(op="score_table", tables=rules.tables()))
    d.close()
    if "ok" not in st:
        ck.inconclusive("score table could not be extracted: %s" % json.dumps(st)[:200])
        return ck.finish(dict(evaluations=0, distinct_nontrivial=0, explanation="no score table"))
    weights = st["ok"]["weights"]
    if abs(st["ok"]["additivity_probe"] - (weights["PrivacyUnitPreserving"] + weights["Public"] + weights["DifferentiallyPrivate"])) > 1e-9:
        ck.inconclusive("Score is no longer additive over nodes: the linear score model does not apply")
    shapes = rules.corpus(tier, seed())
    ext = rules.extract(shapes)
    queries, meta = [], {}
    n_prog = n_deriv = n_typed_bad = n_refused = 0
    labelings_upper = 0
    for (shape, syn), job, ans in ext:
        o = ans.get("ok")
        if "timeout" in ans or "crash" in ans or "panic" in ans:
            # never skip silently: a shape whose compilation panics is not explored (C18's pipeline sweep reports the panic)
            ck.inconclusive("rule extraction failed on %s: %s" % (rules.sql_of(shape), json.dumps(ans)[:200]))
            continue
        if o is None or "err" in (o if isinstance(o, dict) else {}) or "err" in ans:
            n_refused += 1
            continue  # the compiler refused the SQL text: not a program
        n_prog += 1
        for strat in ("Soft", "Hard"):
            S = o.get(strat, {})
            if "set" not in S:
                ck.inconclusive("rule extraction panicked for %s/%s: %s" % (rules.sql_of(shape), strat, json.dumps(S)[:200]))
                continue
            nodes, root = rules.flatten(S["set"])
            enodes, _ = rules.flatten(S["eliminated"])
            decls, cons, out = rules.encode(nodes)
            base = decls + ["(assert %s)" % c for c in cons]
            pid = "%s|syn=%d|%s" % (json.dumps(shape), syn, strat)
            space = 1
            for n in nodes:
                space *= max(1, len(n["rules"]))
            labelings_upper += space
            # --- derivations returned by the real selector
            derivs = S["derivations"]
            n_deriv += len(derivs)
            asgs = []
            for dv in derivs:
                a = rules.assignment_of_derivation(enodes, dv["tree"])
                a_set = rules.assignment_of_derivation(nodes, dv["tree"])
                # well-typedness, concretely
                dn, _ = rules.flatten(dv["tree"])
                ok = a_set is not None
                for x in dn:
                    r = x["rule"]
                    if len(r["inputs"]) != len(x["children"]) or any(dn[c]["rule"]["output"] != need for c, need in zip(x["children"], r["inputs"])):
                        ok = False
                if not ok:
                    n_typed_bad += 1
                    ck.violation("search=derivation-ill-typed", "a derivation returned by select_rewriting_rules is not consistent for `%s` (%s)" % (rules.sql_of(shape), strat), dict(derivation=dv["tree"]))
                # score model vs real score
                model_score = sum(weights[x["rule"]["output"]] for x in dn)
                if abs(model_score - dv["score"]) > 1e-9:
                    ck.inconclusive("score model mismatch on %s: real %s, linear model %s" % (pid, dv["score"], model_score))
                asgs.append(a_set)
            # select-complete: a consistent labeling that the selector did not return
            notin = []
            for a in asgs:
                if a is not None:
                    notin.append(lor(["(not (= c%d %d))" % (i, j) for i, j in a.items()]))
            qid = "select-complete|" + pid
            queries.append(dict(id=qid, script="\n".join(base + ["(assert %s)" % x for x in notin]), values=["c%d" % n["idx"] for n in nodes]))
            meta[qid] = dict(kind="select", shape=shape, syn=syn, strat=strat, nodes=nodes)
            # eliminate-sound: a consistent labeling using a rule the Eliminator removed
            removed = []
            for n, e in zip(nodes, enodes):
                kept = [(r["inputs"], r["output"], r["param"]) for r in e["rules"]]
                for j, r in enumerate(n["rules"]):
                    if (r["inputs"], r["output"], r["param"]) not in kept:
                        removed.append("(= c%d %d)" % (n["idx"], j))
            if removed:
                qid = "eliminate-sound|" + pid
                queries.append(dict(id=qid, script="\n".join(base + ["(assert %s)" % lor(removed)]), values=["c%d" % n["idx"] for n in nodes]))
                meta[qid] = dict(kind="elim", shape=shape, syn=syn, strat=strat, nodes=nodes)
            # entry points
            entries = [("entry_pup_" + strat, rules.ACCEPT_PUP)]
            if strat == "Hard":
                entries.append(("entry_dp", rules.ACCEPT_DP))
            for ename, accept in entries:
                E = o.get(ename, {})
                acc = rules.in_set(out[root], accept)
                if "panic" in E:
                    # attribute the panic to the derivation(s) whose rewriting panics (the entry points rewrite every acceptable derivation eagerly)
                    import re as _re
                    culprits = [dv for dv in derivs if "panic" in dv.get("rewrite", {}) and dv["output"] in accept]
                    cls = lambda m: _re.sub(r"\(\\?\"[^\"]*\\?\"\)", "", _re.sub(r" at /.*$", "", m)).replace("called `Result::unwrap()` on an `Err` value: ", "unwrap-Err:").strip()
                    if culprits:
                        for dv in culprits[:3]:
                            dn, _ = rules.flatten(dv["tree"])
                            has_join_over_reduce = any(x["kind"] == "Join" for x in dn) and any(x["kind"] == "Reduce" for x in dn)
                            key = "rewriter=panic/%s-derivation/%s/%s" % (dv["output"], "join+reduce" if has_join_over_reduce else "other", cls(dv["rewrite"]["panic"]))
                            ck.violation(key, "`%s` (synthetic=%s): %s panics because rewriting the %s derivation panics: %s" % (rules.sql_of(shape), syn, ename, dv["output"], dv["rewrite"]["panic"]),
                                         dict(sql=rules.sql_of(shape), synthetic=syn, derivation=dv["tree"]))
                    else:
                        ck.violation("entry=panic/%s/%s" % (ename, cls(E["panic"])), "`%s` panics in %s: %s" % (rules.sql_of(shape), ename, E["panic"]), dict(sql=rules.sql_of(shape)))
                    continue
                qid = "entry-complete|%s|%s" % (ename, pid)
                queries.append(dict(id=qid, script="\n".join(base + ["(assert %s)" % acc]), values=["c%d" % n["idx"] for n in nodes]))
                meta[qid] = dict(kind="entry-complete", expect="sat" if "ok" in E else "unsat", shape=shape, syn=syn, strat=strat, ename=ename, nodes=nodes, result=E)
                if "ok" in E:
                    # which derivation did the entry point apply? identify it by the (name-independent) signature of its rewriting
                    cands = [dv for dv in derivs if dv["output"] in accept and dv.get("rewrite", {}).get("sig") == E["ok"]["sig"] and dv["rewrite"].get("dp_event") == E["ok"]["dp_event"]]
                    if not cands:
                        rewritten = [dv for dv in derivs if "rewrite" in dv]
                        if len(rewritten) == len(derivs):
                            ck.inconclusive("the relation returned by %s matches no derivation of the selector for `%s`" % (ename, rules.sql_of(shape)))
                        continue
                    applied = max(dv["score"] for dv in cands)
                    sc = rules.score_term(nodes, out, weights)
                    qid = "entry-optimal|%s|%s" % (ename, pid)
                    queries.append(dict(id=qid, script="\n".join(base + ["(assert %s)" % acc, "(assert (> %s %s))" % (sc, smt.real_lit(fractions.Fraction(applied)))]),
                                        values=["c%d" % n["idx"] for n in nodes]))
                    meta[qid] = dict(kind="entry-optimal", shape=shape, syn=syn, strat=strat, ename=ename, nodes=nodes, applied=applied)
            ck.sample(dict(sql=rules.sql_of(shape), synthetic=syn, strategy=strat, nodes=len(nodes), labelings=space, derivations=len(derivs)))
    results = smt.solve_all(queries, tq, workers=14, order=["z3new", "cvc5"])
    ck.count(results)

    def labeling(info, model):
        lab = []
        for n in info["nodes"]:
            j = int(model["c%d" % n["idx"]])
            r = n["rules"][j]
            lab.append("%s[%s]: %s -> %s" % (n["kind"], n["name"], ",".join(r["inputs"]) or "-", r["output"]))
        return lab

    n_witness = 0
    for r in results:
        info = meta[r["id"]]
        sql = rules.sql_of(info["shape"])
        if info["kind"] == "entry-complete":
            if info["expect"] == "sat" and r["status"] == "sat":
                n_witness += 1
            if info["expect"] == "unsat" and r["status"] == "sat":
                ck.violation("search=%s/unreachable-but-derivation-exists" % info["ename"],
                             "`%s` (synthetic=%s, %s): %s reports `%s` although a consistent acceptable labeling exists" % (sql, info["syn"], info["strat"], info["ename"], info["result"].get("err", "").strip()),
                             dict(sql=sql, labeling=labeling(info, r["model"])))
            if info["expect"] == "sat" and r["status"] == "unsat":
                ck.violation("search=%s/result-without-derivation" % info["ename"],
                             "`%s` (synthetic=%s, %s): %s returns a relation although no consistent acceptable labeling exists" % (sql, info["syn"], info["strat"], info["ename"]), dict(sql=sql))
            continue
        if r["status"] != "sat":
            continue
        lab = labeling(info, r["model"])
        if info["kind"] == "select":
            ck.violation("search=select/consistent-labeling-missing", "`%s` (synthetic=%s, %s): select_rewriting_rules misses the consistent labeling %s" % (sql, info["syn"], info["strat"], lab), dict(sql=sql, labeling=lab))
        elif info["kind"] == "elim":
            ck.violation("search=eliminate/usable-rule-removed", "`%s` (synthetic=%s, %s): the Eliminator removed a rule used by the consistent labeling %s" % (sql, info["syn"], info["strat"], lab), dict(sql=sql, labeling=lab))
        elif info["kind"] == "entry-optimal":
            ck.violation("search=%s/not-best-score" % info["ename"], "`%s` (synthetic=%s, %s): %s applied a derivation of score %s, the consistent labeling %s scores higher" % (
                sql, info["syn"], info["strat"], info["ename"], info["applied"], lab), dict(sql=sql, labeling=lab, applied_score=info["applied"]))
    if n_witness == 0:
        ck.inconclusive("no program of the corpus has a reachable entry point: the existence queries are vacuous")
    cov = dict(
        states=labelings_upper, transitions=len(queries), traces_validated_against_impl=n_deriv,
        explanation="states = size of the labeling spaces (product of candidate rule counts per node) the solver quantifies over, summed over programs; traces validated = derivations of the real selector re-checked for consistency and score",
        programs=n_prog, strategies=2, synthetic=[False, True], derivations_checked=n_deriv, ill_typed=n_typed_bad,
        bounds=dict(shapes="all SQL shapes with <= 2 operators over {protected, public} leaves and {map, reduce, unsupported reduce, join, union}, a fixed list (foreign-key paths, qualified tables, nested DP sub-queries, left joins) and %d sampled shapes with 3%s operators" % (40 if tier == "quick" else 400, "" if tier == "quick" else "-4"),
                    outside=["trees beyond the enumerated shapes; fan-out > 2 does not exist in the IR", "the identification of the applied derivation relies on a name-independent signature of the rewritten relation"]),
        score_weights=weights,
        evaluations=len(queries), distinct_nontrivial=len(set(q["script"] for q in queries)),
    )
    return ck.finish(cov, assumptions=["Score is additive over nodes with the per-label weights read from the real Score visitor (probed this run)",
                                       "two occurrences of the same table are labelled independently (as the selector's cartesian product does)"])


if __name__ == "__main__":
    sys.exit(main())
