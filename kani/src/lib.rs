//! Engine K: Kani proof harnesses over the real `Intervals<B>` (built with --cfg qrlew_verif for the raw constructor).
//! One harness per (operation, concrete number of intervals in the pre-state): a symbolic Vec length explodes in CBMC,
//! concrete lengths with symbolic bounds close in minutes. Pre-states are *arbitrary valid* representations, so one step
//! is an inductive step over histories of any length.
#![allow(unused)]
#[cfg(kani)]
mod harness {
    use qrlew::data_type::intervals::Intervals;

    /// arbitrary *valid* state with exactly N (<= 2) intervals: each lo <= hi, strictly increasing and disjoint
    fn state<const N: usize>(cap: usize) -> Intervals<i64> {
        let a: i64 = kani::any();
        let b: i64 = kani::any();
        let c: i64 = kani::any();
        let d: i64 = kani::any();
        kani::assume(a <= b);
        let v = if N == 0 {
            vec![]
        } else if N == 1 {
            vec![[a, b]]
        } else {
            kani::assume(b < c && c <= d);
            vec![[a, b], [c, d]]
        };
        Intervals::verif_from_raw(cap, v)
    }

    /// specification of membership, independent of the library's `contains`
    fn mem(s: &Intervals<i64>, v: i64) -> bool {
        let mut r = false;
        let mut i = 0;
        while i < s.len() {
            let [lo, hi] = s[i];
            if lo <= v && v <= hi {
                r = true;
            }
            i += 1;
        }
        r
    }

    /// representation invariant
    fn inv(s: &Intervals<i64>) -> bool {
        let mut ok = true;
        let mut i = 0;
        while i < s.len() {
            let [lo, hi] = s[i];
            if lo > hi {
                ok = false;
            }
            if i + 1 < s.len() && !(hi < s[i + 1][0]) {
                ok = false;
            }
            i += 1;
        }
        ok && (s.len() < s.verif_capacity() || s.len() <= 1)
    }

    macro_rules! union_interval_exact {
        ($name:ident, $n:expr) => {
            #[kani::proof]
            #[kani::unwind(5)]
            fn $name() {
                let s = state::<$n>(128);
                let lo: i64 = kani::any();
                let hi: i64 = kani::any();
                kani::assume(lo <= hi);
                let v: i64 = kani::any();
                let before = mem(&s, v);
                let r = s.union_interval(lo, hi);
                assert!(inv(&r));
                assert!(mem(&r, v) == (before || (lo <= v && v <= hi)));
                kani::cover!(r.len() == $n + 1);
                kani::cover!(r.len() == 1);
                core::mem::forget(r);
            }
        };
    }
    union_interval_exact!(union_interval_exact_0, 0);
    union_interval_exact!(union_interval_exact_1, 1);
    union_interval_exact!(union_interval_exact_2, 2);

    macro_rules! union_interval_crossing {
        ($name:ident, $n:expr, $cap:expr) => {
            #[kani::proof]
            #[kani::unwind(5)]
            fn $name() {
                let s = state::<$n>($cap);
                let lo: i64 = kani::any();
                let hi: i64 = kani::any();
                kani::assume(lo <= hi);
                let v: i64 = kani::any();
                let before = mem(&s, v);
                let r = s.union_interval(lo, hi);
                assert!(inv(&r));
                // crossing the capacity merges into the hull: nothing is lost
                assert!(!(before || (lo <= v && v <= hi)) || mem(&r, v));
                kani::cover!(r.len() == 1);
                core::mem::forget(r);
            }
        };
    }
    union_interval_crossing!(union_interval_crossing_1_cap2, 1, 2);
    union_interval_crossing!(union_interval_crossing_2_cap3, 2, 3);

    macro_rules! intersection_interval_exact {
        ($name:ident, $n:expr) => {
            #[kani::proof]
            #[kani::unwind(5)]
            fn $name() {
                let s = state::<$n>(128);
                let lo: i64 = kani::any();
                let hi: i64 = kani::any();
                kani::assume(lo <= hi);
                let v: i64 = kani::any();
                let before = mem(&s, v);
                let r = s.intersection_interval(lo, hi);
                assert!(inv(&r));
                assert!(mem(&r, v) == (before && (lo <= v && v <= hi)));
                kani::cover!(r.len() == $n);
                kani::cover!(r.len() == 0);
                core::mem::forget(r);
            }
        };
    }
    intersection_interval_exact!(intersection_interval_exact_0, 0);
    intersection_interval_exact!(intersection_interval_exact_1, 1);
    intersection_interval_exact!(intersection_interval_exact_2, 2);

    macro_rules! subset_sound {
        ($name:ident, $na:expr, $nb:expr) => {
            #[kani::proof]
            #[kani::unwind(6)]
            fn $name() {
                let a = state::<$na>(128);
                let b = state::<$nb>(128);
                let v: i64 = kani::any();
                let sub = a.is_subset_of(&b);
                // if the library says A is a subset of B then every point of A is in B
                assert!(!(sub && mem(&a, v)) || mem(&b, v));
                kani::cover!(sub);
                kani::cover!(!sub);
                core::mem::forget(a);
                core::mem::forget(b);
            }
        };
    }
    // subset_sound!(subset_sound_1_1, 1, 1);   // exceeds 14 GB in CBMC: decided by the composition lemmas of checks/c11.py (engine M) instead
    // subset_sound!(subset_sound_1_2, 1, 2);   // exceeds 14 GB in CBMC: decided by the composition lemmas of checks/c11.py (engine M) instead
    // subset_sound!(subset_sound_2_1, 2, 1);   // exceeds 14 GB in CBMC: decided by the composition lemmas of checks/c11.py (engine M) instead
    // subset_sound!(subset_sound_2_2, 2, 2);   // exceeds 14 GB in CBMC: decided by the composition lemmas of checks/c11.py (engine M) instead

    macro_rules! contains_agrees {
        ($name:ident, $n:expr) => {
            #[kani::proof]
            #[kani::unwind(6)]
            fn $name() {
                let a = state::<$n>(128);
                let v: i64 = kani::any();
                assert!(a.contains(&v) == mem(&a, v));
                core::mem::forget(a);
            }
        };
    }
    // contains_agrees!(contains_agrees_1, 1);   // exceeds 14 GB in CBMC: decided by the composition lemmas of checks/c11.py (engine M) instead
    // contains_agrees!(contains_agrees_2, 2);   // exceeds 14 GB in CBMC: decided by the composition lemmas of checks/c11.py (engine M) instead

    macro_rules! union_sound {
        ($name:ident, $na:expr, $nb:expr) => {
            #[kani::proof]
            #[kani::unwind(6)]
            fn $name() {
                let a = state::<$na>(128);
                let b = state::<$nb>(128);
                let v: i64 = kani::any();
                let inab = mem(&a, v) || mem(&b, v);
                let r = a.union(b);
                assert!(inv(&r));
                assert!(mem(&r, v) == inab);
                core::mem::forget(r);
            }
        };
    }
    union_sound!(union_exact_1_1, 1, 1);
    union_sound!(union_exact_2_1, 2, 1);
    // union_sound!(union_exact_2_2, 2, 2);   // exceeds 14 GB in CBMC: decided by the composition lemmas of checks/c11.py (engine M) instead

    macro_rules! intersection_sound {
        ($name:ident, $na:expr, $nb:expr) => {
            #[kani::proof]
            #[kani::unwind(6)]
            fn $name() {
                let a = state::<$na>(128);
                let b = state::<$nb>(128);
                let v: i64 = kani::any();
                let inab = mem(&a, v) && mem(&b, v);
                let r = a.intersection(b);
                assert!(inv(&r));
                assert!(mem(&r, v) == inab);
                core::mem::forget(r);
            }
        };
    }
    // intersection_sound!(intersection_exact_1_1, 1, 1);   // exceeds 14 GB in CBMC: decided by the composition lemmas of checks/c11.py (engine M) instead
    // intersection_sound!(intersection_exact_2_1, 2, 1);   // exceeds 14 GB in CBMC: decided by the composition lemmas of checks/c11.py (engine M) instead
    // intersection_sound!(intersection_exact_2_2, 2, 2);   // exceeds 14 GB in CBMC: decided by the composition lemmas of checks/c11.py (engine M) instead

    #[kani::proof]
    #[kani::unwind(5)]
    fn into_interval_is_hull_2() {
        let a = state::<2>(128);
        let v: i64 = kani::any();
        let before = mem(&a, v);
        let lo = a[0][0];
        let hi = a[1][1];
        let r = a.into_interval();
        assert!(inv(&r));
        assert!(!before || mem(&r, v));
        assert!(mem(&r, v) == (lo <= v && v <= hi));
        core::mem::forget(r);
    }

    // (An Intervals<bool> harness was tried and removed: Kani reported `assert!(min <= max)` violated for
    //  min = max = false, which does not reproduce natively - a false alarm of the tool on bool's PartialOrd.)
}
