"""Generators of struct types, predicates and expressions (driver JSON), seeded."""
import random
import driver
from driver import t_int, t_float, t_bool, t_opt, t_struct, v_int, v_float, v_bool

I64_MIN, I64_MAX = -(1 << 63), (1 << 63) - 1
P53 = 1 << 53
FMAX = 1.7976931348623157e308

INT_TYPES = [t_int((0, 10)), t_int((-5, 5)), t_int((1, 1), (5, 5), (9, 9)), t_int((-3, -1), (2, 4)), t_int((I64_MIN, I64_MAX)), t_int((0, I64_MAX)), t_int((I64_MIN, 0)), t_int((7, 7)),
             t_int((P53 - 1, P53 + 3)), t_int((-100, 100))]
FLOAT_TYPES = [t_float((0.0, 10.0)), t_float((-1.5, 2.5)), t_float((0.5, 0.5), (2.0, 2.0)), t_float((-FMAX, FMAX)), t_float((0.0, FMAX)), t_float((-10.0, -0.5)), t_float((3.0, 3.0)), t_float((-1e300, 1e300))]
BOOL_TYPES = [t_bool((False, True)), t_bool((True, True)), t_bool((False, False), (True, True)), t_bool((False, False))]


def col(name):
    return {"e": "Column", "path": [name]}


def val(v):
    return {"e": "Value", "v": v}


def fn(f, *args):
    return {"e": "Function", "f": f, "n": None, "args": list(args)}


def lit_for(rnd, t):
    """a literal near the bounds of type t"""
    if t["t"] == "Optional":
        t = t["of"]
    if t["t"] == "Integer":
        pts = []
        for lo, hi in t["iv"]:
            lo, hi = int(lo), int(hi)
            pts += [lo, hi, (lo + hi) // 2, max(I64_MIN, lo - 1), min(I64_MAX, hi + 1)]
        return val(v_int(rnd.choice(pts)))
    if t["t"] == "Float":
        import struct
        pts = []
        for lo, hi in t["iv"]:
            flo, fhi = driver.bits_f64(lo), driver.bits_f64(hi)
            pts += [flo, fhi, 0.0, 1.0, flo / 2 + fhi / 2]
        if rnd.random() < 0.3:
            return val(v_int(int(max(-1e6, min(1e6, rnd.choice(pts))))))
        return val(v_float(rnd.choice(pts)))
    return val(v_bool(rnd.random() < 0.5))


def struct_type(rnd, ncols=None, allow_optional=True):
    ncols = ncols or rnd.choice([2, 2, 3])
    fields = []
    for i in range(ncols):
        kind = rnd.random()
        t = rnd.choice(INT_TYPES) if kind < 0.5 else rnd.choice(FLOAT_TYPES) if kind < 0.9 else rnd.choice(BOOL_TYPES)
        if allow_optional and rnd.random() < 0.25:
            t = t_opt(t)
        fields.append(("abcd"[i], t))
    return t_struct(fields)


def base(t):
    return t["of"] if t["t"] == "Optional" else t


def numeric_cols(T):
    return [(n, t) for n, t in T["fields"] if base(t)["t"] in ("Integer", "Float")]


def atom(rnd, T):
    """a comparison / equality / IN atom over the columns of T"""
    nums = numeric_cols(T)
    bools = [(n, t) for n, t in T["fields"] if base(t)["t"] == "Boolean"]
    r = rnd.random()
    if bools and r < 0.25:
        return col(rnd.choice(bools)[0])
    if not nums:
        return val(v_bool(True))
    n, t = rnd.choice(nums)
    op = rnd.choice(["Gt", "Lt", "GtEq", "LtEq", "Eq", "NotEq", "Gt", "Lt"])
    if r < 0.55:
        a, b = col(n), lit_for(rnd, t)
        if rnd.random() < 0.35:
            a, b = b, a   # reversed operands
        return fn(op, a, b)
    if r < 0.75 and len(nums) >= 2:
        (n1, _), (n2, _) = rnd.sample(nums, 2)
        return fn(op, col(n1), col(n2))
    if r < 0.87:
        items = [lit_for(rnd, t)["v"] for _ in range(rnd.choice([1, 2, 3]))]
        kinds = {i["t"] for i in items}
        if len(kinds) > 1:
            items = [i for i in items if i["t"] == items[0]["t"]]
        return fn("InList", col(n), val({"t": "List", "v": items}))
    if r < 0.93:
        return fn("IsNull", col(n))
    # a sub-term the narrowing does not understand
    if len(nums) >= 2:
        (n1, _), (n2, _) = rnd.sample(nums, 2)
        return fn(op, fn(rnd.choice(["Plus", "Minus", "Multiply"]), col(n1), col(n2)), lit_for(rnd, t))
    return fn(op, fn("Abs", col(n)), lit_for(rnd, t))


def predicate(rnd, T, depth=2):
    if depth == 0 or rnd.random() < 0.3:
        return atom(rnd, T)
    r = rnd.random()
    if r < 0.45:
        return fn("And", predicate(rnd, T, depth - 1), predicate(rnd, T, depth - 1))
    if r < 0.85:
        return fn("Or", predicate(rnd, T, depth - 1), predicate(rnd, T, depth - 1))
    return fn("Not", predicate(rnd, T, depth - 1))


def show(e):
    k = e["e"]
    if k == "Column":
        return ".".join(e["path"])
    if k == "Value":
        v = e["v"]
        if v["t"] == "List":
            return "(" + ", ".join(show(val(x)) for x in v["v"]) + ")"
        if v["t"] == "Float":
            return repr(driver.bits_f64(v["v"]))
        if v["t"] == "Optional":
            return "NULL" if v["v"] is None else show(val(v["v"]))
        return str(v.get("v"))
    if k == "Function":
        return "%s(%s)" % (e["f"], ", ".join(show(a) for a in e["args"]))
    return k
