"""Build and talk to qverif-driver (the Rust binary linked against /repo's current working tree)."""
import json, os, subprocess, sys, time, select, signal

import paths
VERIF = paths.VERIF
TARGET = paths.target("driver")
BIN = os.path.join(TARGET, "debug", "qverif-driver")
CFG = "--cfg qrlew_verif"


def cargo_env():
    env = dict(os.environ)
    env["CARGO_NET_OFFLINE"] = "true"
    env["RUSTFLAGS"] = (env.get("RUSTFLAGS", "") + " " + CFG + " --check-cfg=cfg(qrlew_verif)").strip()
    return env


def build(quiet=True):
    """(Re)build the driver against /repo's current sources. cargo's fingerprinting makes this a no-op when nothing changed."""
    t0 = time.time()
    ddir = paths.crate_dir("driver")
    lock_src = paths.REPO + "/Cargo.lock"
    lock_dst = os.path.join(ddir, "Cargo.lock")
    if not os.path.exists(lock_dst):
        import shutil
        shutil.copy(lock_src, lock_dst)
    p = subprocess.run(["cargo", "build", "--offline", "--target-dir", TARGET],
                       cwd=ddir, env=cargo_env(),
                       stdout=subprocess.PIPE, stderr=subprocess.STDOUT, text=True)
    if p.returncode != 0:
        sys.stderr.write(p.stdout[-6000:])
        raise SystemExit("BUILD-FAILED: qverif-driver does not build against /repo (exit 2)")
    return time.time() - t0


class Driver:
    def __init__(self, job_timeout=20.0):
        self.p = None
        self.job_timeout = job_timeout
        self.rbuf = b""

    def _start(self):
        self.p = subprocess.Popen([BIN], stdin=subprocess.PIPE, stdout=subprocess.PIPE,
                                  stderr=subprocess.DEVNULL, start_new_session=True)
        self.rbuf = b""

    def close(self):
        if self.p and self.p.poll() is None:
            try:
                os.killpg(self.p.pid, signal.SIGKILL)
            except Exception:
                pass
            self.p.wait()
        self.p = None

    def _readline(self, deadline):
        fd = self.p.stdout.fileno()
        while b"\n" not in self.rbuf:
            rem = deadline - time.time()
            if rem <= 0:
                return None
            r, _, _ = select.select([fd], [], [], min(rem, 1.0))
            if not r:
                if self.p.poll() is not None:
                    return None
                continue
            chunk = os.read(fd, 1 << 20)
            if not chunk:
                return None
            self.rbuf += chunk
        line, self.rbuf = self.rbuf.split(b"\n", 1)
        return line

    def call(self, job, timeout=None):
        """One job -> answer dict. A hang is reported as {"timeout": secs}; a crash as {"crash": True}."""
        if self.p is None or self.p.poll() is not None:
            self._start()
        t = timeout or self.job_timeout
        try:
            self.p.stdin.write((json.dumps(job) + "\n").encode())
            self.p.stdin.flush()
        except (BrokenPipeError, OSError):
            self.close()
            return {"crash": True}
        line = self._readline(time.time() + t)
        if line is None:
            dead = self.p.poll() is not None
            self.close()
            return {"crash": True} if dead else {"timeout": t}
        try:
            return json.loads(line)
        except Exception as ex:
            return {"bad_answer": repr(ex), "raw": line[:300].decode("utf-8", "replace")}

    def batch(self, jobs, timeout=None):
        return [self.call(j, timeout) for j in jobs]


def parallel_batch(jobs, workers=8, timeout=20.0):
    """Run jobs over several driver processes, preserving order."""
    from concurrent.futures import ThreadPoolExecutor
    if not jobs:
        return []
    workers = max(1, min(workers, len(jobs)))
    chunks = [jobs[i::workers] for i in range(workers)]

    def run(chunk):
        d = Driver(timeout)
        try:
            return d.batch(chunk)
        finally:
            d.close()

    with ThreadPoolExecutor(workers) as ex:
        res = list(ex.map(run, chunks))
    out = [None] * len(jobs)
    for w, r in enumerate(res):
        for k, a in enumerate(r):
            out[w + k * workers] = a
    return out


# ---- JSON builders for types/values -------------------------------------------------

import struct


def f64_bits(x):
    return "0x%016x" % struct.unpack("<Q", struct.pack("<d", x))[0]


def bits_f64(s):
    return struct.unpack("<d", struct.pack("<Q", int(s, 16)))[0]


def t_int(*ivs):
    return {"t": "Integer", "iv": [[str(a), str(b)] for a, b in ivs]}


def t_float(*ivs):
    return {"t": "Float", "iv": [[f64_bits(a), f64_bits(b)] for a, b in ivs]}


def t_bool(*ivs):
    return {"t": "Boolean", "iv": [[a, b] for a, b in ivs]}


def t_opt(t):
    return {"t": "Optional", "of": t}


def t_struct(fields):
    return {"t": "Struct", "fields": [[n, t] for n, t in fields]}


def v_int(x):
    return {"t": "Integer", "v": str(x)}


def v_float(x):
    return {"t": "Float", "v": f64_bits(x)}


def v_float_bits(bits):
    return {"t": "Float", "v": "0x%016x" % bits}


def v_bool(x):
    return {"t": "Boolean", "v": bool(x)}


def v_none():
    return {"t": "Optional", "v": None}


def v_some(v):
    return {"t": "Optional", "v": v}


def v_struct(fields):
    return {"t": "Struct", "fields": [[n, v] for n, v in fields]}


I64_MIN, I64_MAX = -(1 << 63), (1 << 63) - 1
F64_MAX = 1.7976931348623157e308
