"""Helpers on top of mir.py: instantiate translated kernels inside queries, membership of symbolic scalars in
(JSON) data types, concrete evaluation of kernel terms by the solver (translator validation)."""
import re, struct
import mir, smt
from smt import land, lor, lnot, ite, fp_lit, bv64

I64_MIN, I64_MAX = -(1 << 63), (1 << 63) - 1


class Kernel:
    """A translated MIR body that can be instantiated several times in one query with distinct argument names."""

    def __init__(self, fns, name, mode="bv"):
        self.fns, self.name, self.mode = fns, name, mode
        self.fn = fns[name]
        k = mir.kernel(fns, name, mode)  # fails loudly with NotTranslatable
        self.arg_tys = [t for _, t in k["args"]]
        self.ret_ty = self.fn.ret
        self.callees = k["callees"]
        self.n = 0

    def inst(self, arg_terms, declare=False):
        """-> dict(decls [..], val (mir value), panic term, side [..]) for the given argument terms.
        arg_terms are SMT terms of the right sorts (symbols or literals).
        Scalar kernels are translated once into a template (placeholders for arguments, fresh symbols renamed per use)."""
        tpl = getattr(self, "_tpl", None)
        if tpl is None:
            ph = ["@%d@" % i for i in range(len(arg_terms))]
            t = self._inst_slow(ph)
            self._tpl = t if isinstance(t["val"], mir.V) else False
            tpl = self._tpl
        if tpl:
            Kernel._uid += 1
            uid = Kernel._uid

            def sub(x):
                x = re.sub(r"!(\d+)", lambda m: "!%d_%s" % (uid, m.group(1)), x)
                for i, a in enumerate(arg_terms):
                    x = x.replace("@%d@" % i, a)
                return x
            return dict(decls=[sub(d) for d in tpl["decls"]], val=mir.V(tpl["val"].ty, sub(tpl["val"].t)), panic=sub(tpl["panic"]), side=[sub(x) for x in tpl["side"]])
        return self._inst_slow(arg_terms)

    _uid = 0

    def _inst_slow(self, arg_terms):
        self.n += 1
        enc = mir.Enc(self.mode)
        enc.fresh = self.n * 1000
        tr = mir.Translator(self.fns, enc)
        args = []
        it = iter(arg_terms)
        for (n, t) in self.fn.args:
            t0 = t.lstrip("&").strip()
            if "{closure@" in t0:
                args.append(mir.LazyEnv("env%d" % self.n))
            elif t0 in mir.INT_W or t0 in ("f64", "bool"):
                args.append(mir.V(t0, next(it)))
            else:
                m = re.fullmatch(r"\((.*)\)", t0)
                items = [mir.V(tt, next(it)) for tt in mir.split_top(m.group(1))]
                args.append(mir.Tup(items))
        val, panic = tr.translate_fn(self.name, args)
        return dict(decls=list(enc.decls), val=val, panic=panic, side=list(enc.side))


def sort_of(ty, mode="bv"):
    return mir.Enc(mode).sort(ty)


def lit(ty, v, mode="bv"):
    """python value -> literal term. ints for integer types, float / FP for f64, bool for bool"""
    if ty == "bool":
        return "true" if v else "false"
    if ty == "f64":
        if mode == "bv":
            return fp_lit(v)
        return smt.real_lit(v)
    return mir.Enc(mode).int_const(ty, v)


def py_of_model(ty, mv):
    """model value (from smt.value_of) -> python value (int for ints, FP for f64, bool)"""
    if ty == "bool":
        return bool(mv)
    if ty == "f64":
        return mv  # smt.FP or Fraction
    if isinstance(mv, tuple) and mv[0] == "bv":
        w = mv[2]
        u = mv[1]
        return u - (1 << w) if (ty[0] == "i" and u >> (w - 1)) else u
    return int(mv)


# ---- membership of a symbolic scalar term in a JSON data type (driver format) -----------


def bits_to_float(s):
    return struct.unpack("<d", struct.pack("<Q", int(s, 16)))[0]


def member(dt, term, mode="bv"):
    """term (of the sort matching dt's variant) is a member of dt (Boolean / Integer / Float intervals)"""
    t = dt["t"]
    if t == "Integer":
        alts = []
        for lo, hi in dt["iv"]:
            lo, hi = int(lo), int(hi)
            if mode == "bv":
                alts.append("(= %s %s)" % (term, bv64(lo)) if lo == hi else "(and (bvsle %s %s) (bvsle %s %s))" % (bv64(lo), term, term, bv64(hi)))
            else:
                alts.append("(= %s %s)" % (term, smt.int_lit(lo)) if lo == hi else "(and (<= %s %s) (<= %s %s))" % (smt.int_lit(lo), term, term, smt.int_lit(hi)))
        return lor(alts)
    if t == "Float":
        alts = []
        for lo, hi in dt["iv"]:
            flo, fhi = bits_to_float(lo), bits_to_float(hi)
            if mode == "bv":
                alts.append("(and (fp.leq %s %s) (fp.leq %s %s))" % (fp_lit(flo), term, term, fp_lit(fhi)))
            else:
                import fractions
                c = []
                if flo != float("-inf"):
                    c.append("(<= %s %s)" % (smt.real_lit(fractions.Fraction(flo)), term))
                if fhi != float("inf"):
                    c.append("(<= %s %s)" % (term, smt.real_lit(fractions.Fraction(fhi))))
                alts.append(land(c))
        return lor(alts)
    if t == "Boolean":
        alts = []
        for lo, hi in dt["iv"]:
            if lo == hi:
                alts.append(term if lo else lnot(term))
            else:
                alts.append("true")
        return lor(alts)
    raise ValueError("member: unsupported type " + t)


def scalar_ty(dt):
    return {"Integer": "i64", "Float": "f64", "Boolean": "bool"}[dt["t"]]


def value_json(ty, v):
    """python value -> driver Value JSON"""
    if ty == "bool":
        return {"t": "Boolean", "v": bool(v)}
    if ty == "i64":
        return {"t": "Integer", "v": str(v)}
    if ty == "f64":
        bits = v.bits if isinstance(v, smt.FP) else smt.FP.from_float(float(v)).bits
        return {"t": "Float", "v": "0x%016x" % bits}
    raise ValueError(ty)


def json_value(j):
    """driver Value JSON -> (ty, python value)"""
    t = j["t"]
    if t == "Boolean":
        return "bool", j["v"]
    if t == "Integer":
        return "i64", int(j["v"])
    if t == "Float":
        return "f64", smt.FP(int(j["v"], 16))
    if t == "Optional":
        return ("none", None) if j["v"] is None else json_value(j["v"])
    return t, j


def same_value(ty, a, b):
    if ty == "f64":
        fa = a.to_float() if isinstance(a, smt.FP) else float(a)
        fb = b.to_float() if isinstance(b, smt.FP) else float(b)
        return fa == fb or (fa != fa and fb != fb)
    return a == b
