"""Callee models for the std combinators used by small higher-order bodies (hierarchy.rs): closures are *applied*
(their MIR bodies are translated and inlined), maps / slices / iterators are finite sequences of concrete length with
symbolic contents. Every model is a few lines; each is validated on concrete inputs against the real code by the
checks that use it (the driver answers the same lookups)."""
import re
import mir
from mir import V, Tup, En, Seq, Clo, Opaque, NotTranslatable, merge
from smt import land, lor, lnot, ite


def closure_index(fns):
    idx = {}
    for name, f in fns.items():
        if f.args:
            m = re.search(r"\{closure@([^}]+)\}", f.args[0][1])
            if m and "{closure" in name:
                idx.setdefault(m.group(1), name)
    return idx


def apply(tr, clo, args):
    """call a closure value with argument values -> (value, panic)"""
    if not isinstance(clo, Clo):
        raise NotTranslatable("call of a non-closure %r" % (clo,))
    if not hasattr(tr, "_clo_index"):
        tr._clo_index = closure_index(tr.fns)
    name = tr._clo_index.get(clo.span)
    if name is None:
        raise NotTranslatable("closure body for %s not found" % clo.span)
    fn = tr.fns[name]
    if len(fn.args) != len(args) + 1:
        raise NotTranslatable("closure arity %s" % name)
    saved = tr._pending_panic
    val, panic = tr.translate_fn(name, [clo.env] + list(args), depth=getattr(tr, "_hof_depth", 0) + 1)
    tr._pending_panic = saved
    return val, panic


def seq_eq(a, b):
    if not (isinstance(a, Seq) and isinstance(b, Seq)) or not (a.plain() and b.plain()):
        raise NotTranslatable("sequence equality on guarded sequences")
    if len(a.items) != len(b.items):
        return "false"
    return land([val_eq(x, y) for (_, x), (_, y) in zip(a.items, b.items)])


def val_eq(x, y):
    if isinstance(x, V) and isinstance(y, V):
        return "(= %s %s)" % (x.t, y.t)
    if isinstance(x, Seq) and isinstance(y, Seq):
        return seq_eq(x, y)
    if isinstance(x, Tup) and isinstance(y, Tup) and len(x.items) == len(y.items):
        return land([val_eq(p, q) for p, q in zip(x.items, y.items)])
    raise NotTranslatable("equality of %r and %r" % (x, y))


def some(v):
    return En("Option", "1", {0: [], 1: [v]})


def none():
    return En("Option", "0", {0: []})


def opt_merge(c, a, b):
    return merge(c, a, b)


# ---- handlers: (tr, callee, args, dest_ty) -> (value, panic)


def h_identity(tr, c, a, dty):
    return a[0], "false"


def h_map_get_key_value(tr, c, a, dty):
    m, key = a[0], a[1]
    res = none()
    for g, ent in reversed(m.items):
        k, v = ent.items
        cond = land([g, seq_eq(k, key)])
        res = merge(cond, some(Tup([k, v])), res)
    return res, "false"


def h_iter(tr, c, a, dty):
    return a[0], "false"


def h_rev(tr, c, a, dty):
    return Seq(list(reversed(a[0].items))), "false"


def h_zip(tr, c, a, dty):
    x, y = a[0], a[1]
    if not (x.plain() and y.plain()):
        raise NotTranslatable("zip of filtered sequences")
    n = min(len(x.items), len(y.items))
    return Seq.of([Tup([x.items[i][1], y.items[i][1]]) for i in range(n)]), "false"


def h_all(tr, c, a, dty):
    it, clo = a[0], a[1]
    conds, panics = [], []
    for g, item in it.items:
        v, p = apply(tr, clo, [item])
        conds.append(lor([lnot(g), v.t]))
        panics.append(land([g, p]))
    return V("bool", land(conds)), lor(panics)


def h_any(tr, c, a, dty):
    it, clo = a[0], a[1]
    conds, panics = [], []
    for g, item in it.items:
        v, p = apply(tr, clo, [item])
        conds.append(land([g, v.t]))
        panics.append(land([g, p]))
    return V("bool", lor(conds)), lor(panics)


def h_fold(tr, c, a, dty):
    it, acc, clo = a[0], a[1], a[2]
    panics = []
    for g, item in it.items:
        nv, p = apply(tr, clo, [acc, item])
        acc = nv if g == "true" else merge(g, nv, acc)
        panics.append(land([g, p]))
    return acc, lor(panics)


def h_filter(tr, c, a, dty):
    it, clo = a[0], a[1]
    out, panics = [], []
    for g, item in it.items:
        v, p = apply(tr, clo, [item])
        out.append((land([g, v.t]), item))
        panics.append(land([g, p]))
    return Seq(out), lor(panics)


def h_map(tr, c, a, dty):
    it, clo = a[0], a[1]
    out, panics = [], []
    for g, item in it.items:
        v, p = apply(tr, clo, [item])
        out.append((g, v))
        panics.append(land([g, p]))
    return Seq(out), lor(panics)


def h_find(tr, c, a, dty):
    it, clo = a[0], a[1]
    res = none()
    panics = []
    for g, item in reversed(it.items):
        v, p = apply(tr, clo, [item])
        res = merge(land([g, v.t]), some(item), res)
        panics.append(land([g, p]))
    return res, lor(panics)


def h_next(tr, c, a, dty):
    it = a[0]
    res = none()
    for g, item in reversed(it.items):
        res = merge(g, some(item), res)
    return res, "false"


def h_count(tr, c, a, dty):
    e = tr.enc
    t = e.int_const("usize", 0)
    for g, _ in a[0].items:
        one = e.int_const("usize", 1)
        t = "(bvadd %s (ite %s %s %s))" % (t, g, one, e.int_const("usize", 0)) if e.mode == "bv" else "(+ %s (ite %s 1 0))" % (t, g)
    return V("usize", t), "false"


def h_len(tr, c, a, dty):
    s = a[0]
    if not isinstance(s, Seq) or not s.plain():
        raise NotTranslatable("len of %r" % (s,))
    return V("usize", tr.enc.int_const("usize", len(s.items))), "false"


def concrete_int(term):
    """value of a closed integer / bit-vector term (lengths of concrete sequences, min / max / differences of them)"""
    import smt
    try:
        e = smt.parse_sexprs(term)[0]
    except Exception:
        raise NotTranslatable("not a closed term: %s" % term)

    def ev(x):
        if isinstance(x, str):
            if x in ("true", "false"):
                return x == "true"
            if re.fullmatch(r"-?\d+", x):
                return int(x)
            if x.startswith("#x"):
                return int(x[2:], 16)
            if x.startswith("#b"):
                return int(x[2:], 2)
            raise NotTranslatable("symbolic length: %s" % x)
        if x and x[0] == "_" and isinstance(x[1], str) and x[1].startswith("bv"):
            return int(x[1][2:])
        op, args = x[0], [ev(y) for y in x[1:]]
        W = 1 << 64
        sg = lambda v: v - W if v >= W // 2 else v
        if op == "ite":
            return args[1] if args[0] else args[2]
        if op in ("+", "bvadd"):
            r = sum(args)
            return r % W if op == "bvadd" else r
        if op == "-":
            return -args[0] if len(args) == 1 else args[0] - sum(args[1:])
        if op == "bvsub":
            return (args[0] - args[1]) % W
        if op in ("*", "bvmul"):
            r = 1
            for v in args:
                r *= v
            return r % W if op == "bvmul" else r
        if op in ("<=", "bvule"):
            return args[0] <= args[1]
        if op in ("<", "bvult"):
            return args[0] < args[1]
        if op in (">=", "bvuge"):
            return args[0] >= args[1]
        if op in (">", "bvugt"):
            return args[0] > args[1]
        if op in ("bvsle", "bvslt", "bvsge", "bvsgt"):
            a_, b_ = sg(args[0]), sg(args[1])
            return {"bvsle": a_ <= b_, "bvslt": a_ < b_, "bvsge": a_ >= b_, "bvsgt": a_ > b_}[op]
        if op == "=":
            return args[0] == args[1]
        if op == "and":
            return all(args)
        if op == "or":
            return any(args)
        if op == "not":
            return not args[0]
        raise NotTranslatable("operator %s in a length term" % op)
    v = ev(e)
    if isinstance(v, bool):
        raise NotTranslatable("boolean where a length was expected")
    return v


def h_slice_index(tr, c, a, dty):
    """seq[..n], seq[n..], seq[m..n] on a sequence of concrete length with closed bounds; out of range = panic"""
    s, r = a[0], a[1]
    if not isinstance(s, Seq) or not s.plain() or not isinstance(r, Tup):
        raise NotTranslatable("slice index on %r" % (s,))
    kind = re.search(r"Index<(?:std::ops::|core::ops::)?(RangeTo|RangeFrom|Range)<usize>>", c).group(1)
    n = len(s.items)
    bounds = [concrete_int(x.t) for x in r.items]
    lo, hi = (0, bounds[0]) if kind == "RangeTo" else ((bounds[0], n) if kind == "RangeFrom" else (bounds[0], bounds[1]))
    if lo > hi or hi > n:
        return Seq([]), "true"
    return Seq(s.items[lo:hi]), "false"


def h_is_empty(tr, c, a, dty):
    return V("bool", "true" if len(a[0].items) == 0 else "false"), "false"


def h_opt_map(tr, c, a, dty):
    o, clo = a[0], a[1]
    sm = o.variants.get(1)
    if not sm:
        return none(), "false"
    v, p = apply(tr, clo, [sm[0]])
    is_some = "(= %s 1)" % o.disc
    return merge(is_some, some(v), none()), land([is_some, p])


def h_opt_and_then(tr, c, a, dty):
    o, clo = a[0], a[1]
    sm = o.variants.get(1)
    if not sm:
        return none(), "false"
    v, p = apply(tr, clo, [sm[0]])
    is_some = "(= %s 1)" % o.disc
    return merge(is_some, v, none()), land([is_some, p])


def h_opt_or_else(tr, c, a, dty):
    o, clo = a[0], a[1]
    v, p = apply(tr, clo, [])
    is_some = "(= %s 1)" % o.disc
    return merge(is_some, o, v), land([lnot(is_some), p])


def h_opt_map_or(tr, c, a, dty):
    o, default, clo = a[0], a[1], a[2]
    sm = o.variants.get(1)
    if not sm:
        return default, "false"
    v, p = apply(tr, clo, [sm[0]])
    is_some = "(= %s 1)" % o.disc
    return merge(is_some, v, default), land([is_some, p])


def h_opt_map_or_else(tr, c, a, dty):
    o, dclo, clo = a[0], a[1], a[2]
    dv, dp = apply(tr, dclo, [])
    sm = o.variants.get(1)
    if not sm:
        return dv, dp
    v, p = apply(tr, clo, [sm[0]])
    is_some = "(= %s 1)" % o.disc
    return merge(is_some, v, dv), lor([land([is_some, p]), land([lnot(is_some), dp])])


def h_opt_or(tr, c, a, dty):
    o, alt = a[0], a[1]
    return merge("(= %s 1)" % o.disc, o, alt), "false"


def h_fn_call(tr, c, a, dty):
    clo, args = a[0], a[1]
    if isinstance(args, Tup):
        return apply(tr, clo, args.items)
    return apply(tr, clo, [args])


def h_eq(tr, c, a, dty):
    return V("bool", val_eq(a[0], a[1])), "false"


def h_ne(tr, c, a, dty):
    return V("bool", lnot(val_eq(a[0], a[1]))), "false"


def h_into_via_from(tr, c, a, dty):
    """<A as Into<B>>::into(x): resolved to the crate-local `impl From<A> for B`"""
    m = re.fullmatch(r"<(.+) as Into<(.+)>>::into", c)
    if m.group(1) == m.group(2):
        return a[0], "false"
    src = m.group(1).split("<")[0].split("::")[-1]
    for name, f in tr.fns.items():
        if name.endswith("::from") and len(f.args) == 1 and re.match(r"(?:\w+::)*%s\b" % re.escape(src), f.args[0][1]):
            saved = tr._pending_panic
            r = tr.translate_fn(name, [a[0]], depth=1)
            tr._pending_panic = saved
            return r
    raise NotTranslatable("no local From impl for " + c)


I = r"<.+ as (?:std::iter::)?Iterator>::"
STUBS = [
    (r"BTreeMap::<.+>::get_key_value(?:::<.+>)?", h_map_get_key_value),
    (r"BTreeMap::<.+>::iter", h_iter),
    (r"core::slice::<impl \[.+\]>::iter", h_iter),
    (r"<.+ as IntoIterator>::into_iter", h_iter),
    (I + r"rev", h_rev),
    (I + r"zip(?:::<.+>)?", h_zip),
    (I + r"all(?:::<.+>)?", h_all),
    (I + r"any(?:::<.+>)?", h_any),
    (I + r"fold(?:::<.+>)?", h_fold),
    (I + r"filter(?:::<.+>)?", h_filter),
    (I + r"map(?:::<.+>)?", h_map),
    (I + r"find(?:::<.+>)?", h_find),
    (I + r"next", h_next),
    (I + r"count", h_count),
    (r"core::slice::<impl \[.+\]>::len", h_len),
    (r"Vec::<.+>::len", h_len),
    (r"core::slice::<impl \[.+\]>::is_empty", h_is_empty),
    (r"<\[.+\] as (?:std::ops::|core::ops::)?Index<(?:std::ops::|core::ops::)?(?:RangeTo|RangeFrom|Range)<usize>>>::index", h_slice_index),
    (r"Vec::<.+>::as_slice", h_identity),
    (r"<Vec<.+> as Deref>::deref", h_identity),
    (r"<.+ as AsRef<.+>>::as_ref", h_identity),
    (r"<.+ as Deref>::deref", h_identity),
    (r"(?:std|core)::option::Option::<.+>::map(?:::<.+>)?", h_opt_map),
    (r"(?:std|core)::option::Option::<.+>::and_then(?:::<.+>)?", h_opt_and_then),
    (r"(?:std|core)::option::Option::<.+>::map_or(?:::<.+>)?", h_opt_map_or),
    (r"(?:std|core)::option::Option::<.+>::map_or_else(?:::<.+>)?", h_opt_map_or_else),
    (r"(?:std|core)::option::Option::<.+>::or_else(?:::<.+>)?", h_opt_or_else),
    (r"(?:std|core)::option::Option::<.+>::or", h_opt_or),
    (r"<.+ as Fn(?:Mut|Once)?<.+>>::call(?:_mut|_once)?", h_fn_call),
    (r"<.+ as PartialEq(?:<.+>)?>::eq", h_eq),
    (r"<.+ as PartialEq(?:<.+>)?>::ne", h_ne),
    (r"<.+ as Into<.+>>::into", h_into_via_from),
]
