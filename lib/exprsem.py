"""Symbolic evaluation of qrlew Expr JSON (driver format) over rows of cells.

A cell is (null term, ty, value term) with ty in {'i64','f64','bool','str'}; the meaning of every scalar function of the
supported core is the MIR-translated kernel the library itself executes (engine M), selected by the dispatch model
below (Polymorphic: integer implementation when every argument is an integer, otherwise arguments are promoted through
the Boolean->Integer / Integer->Float injection kernels and the float implementation is used).

null_mode 'sql'   : SQL semantics (NULL-strict functions, three-valued AND/OR) - what executing the query produces
null_mode 'value' : qrlew's Expr::value semantics (function::Optional: a struct argument with any Optional field, even
                    Some(x), makes the result NULL; a unary function maps Some(x) to Some(f(x)))
Unsupported constructs raise Unsupported (the caller skips the program and counts it)."""
import re, fractions
import paths
import mir, kern, smt
from smt import land, lor, lnot, ite


class Unsupported(Exception):
    pass


def snake(name):
    return re.sub(r"(?<!^)(?=[A-Z])", "_", name).lower()


class Cell:
    __slots__ = ("n", "ty", "t", "opt")

    def __init__(self, n, ty, t, opt=None):
        self.n, self.ty, self.t = n, ty, t
        self.opt = (n != "false") if opt is None else opt   # carried as an Optional value (matters for null_mode 'value')

    def __repr__(self):
        return "Cell(%s,%s,%s)" % (self.n, self.ty, self.t)


_KERNELS = {}


class Bank:
    """kernels of function.rs / injection.rs by (function name, closure index), translated lazily in one mode"""

    def __init__(self, fns, mode):
        self.fns, self.mode = fns, mode
        self.cache = {}
        self.decls = []       # declarations / side constraints produced by instantiations (fresh symbols, UFs)
        self.side = []
        self.panics = []      # (panic term) collected while evaluating - callers may assert their negation
        self.uf_decl = set()
        self.inj = {}
        lines = open(paths.REPO + "/src/data_type/injection.rs").read().split("\n")
        for name in fns:
            m = re.match(r"injection::<impl at src/data_type/injection\.rs:(\d+):\d+: \d+:\d+>::value::\{closure#0\}$", name)
            if m:
                mm = re.match(r"impl Injection for Base<(\w+), (\w+)>", lines[int(m.group(1)) - 1])
                if mm:
                    self.inj[(mm.group(1), mm.group(2))] = name

    def kernel_name(self, fname, idx):
        base = snake(fname)
        if fname in ("CastAsFloat", "CastAsInteger"):
            want = (["i64"], "f64") if fname == "CastAsFloat" else (["f64"], "i64")
            for n, f in self.fns.items():
                if re.fullmatch(r"(?:data_type::function::)?cast::\{closure#\d+\}", n) and [t for _, t in f.args[1:]] == want[0] and f.ret == want[1]:
                    return n
            return None
        for n in self.fns:
            if re.fullmatch(r"(?:data_type::function::)?%s::\{closure#%d\}" % (re.escape(base), idx), n):
                return n
        return None

    def apply(self, name, args):
        """instantiate kernel `name` on argument terms -> (value term or mir value, panic)"""
        key = (id(self.fns), name, self.mode)
        if key not in _KERNELS:
            _KERNELS[key] = kern.Kernel(self.fns, name, self.mode)
        namer = getattr(self, "namer", None)
        if namer is not None:
            # kernels mention their arguments several times: name long argument terms first (keeps scripts linear)
            args = [namer(a, t) for a, t in zip(args, _KERNELS[key].arg_tys)]
        i = _KERNELS[key].inst(args)
        for d in i["decls"]:
            if d not in self.uf_decl:
                self.uf_decl.add(d)
                self.decls.append(d)
        self.side += i["side"]
        if i["panic"] != "false":
            self.panics.append(i["panic"])
        return i["val"]

    def promote(self, c, ty):
        """numeric promotion through the library's injection kernels"""
        if c.ty == ty:
            return c
        if c.ty == "bool" and ty == "i64":
            v = self.apply(self.inj[("Boolean", "Integer")], [c.t])
            return Cell(c.n, "i64", v.t, c.opt)
        if c.ty == "i64" and ty == "f64":
            v = self.apply(self.inj[("Integer", "Float")], [c.t])
            return Cell(c.n, "f64", v.t, c.opt)
        if c.ty == "bool" and ty == "f64":
            return self.promote(self.promote(c, "i64"), "f64")
        raise Unsupported("promotion %s -> %s" % (c.ty, ty))


ARITH = {"Plus", "Minus", "Multiply", "Divide", "Least", "Greatest"}
COMPARE = {"Gt", "Lt", "GtEq", "LtEq"}
FLOAT_UNARY = {"Opposite": "f64", "Abs": "f64", "Sign": "i64", "Ceil": "f64", "Floor": "f64", "Exp": "f64", "Ln": "f64", "Log": "f64", "Sqrt": "f64", "Sin": "f64", "Cos": "f64"}


class Evaluator:
    def __init__(self, bank, null_mode="sql"):
        self.b = bank
        self.mode = bank.mode
        self.null_mode = null_mode
        self.enc = mir.Enc(bank.mode)
        self.fresh_n = 0
        self.str_codes = {}
        self.random = {}        # (row key, random id) -> term
        self.extra_decls = []
        self.extra_side = []

    # ---- literals
    def lit(self, ty, v):
        return kern.lit(ty, v, self.mode)

    def str_code(self, s):
        if s not in self.str_codes:
            self.str_codes[s] = len(self.str_codes) + 1000
        return self.enc.int_const("i64", self.str_codes[s]) if self.mode == "bv" else str(self.str_codes[s])

    def value_cell(self, v):
        t = v["t"]
        if t == "Integer":
            return Cell("false", "i64", self.lit("i64", int(v["v"])))
        if t == "Float":
            f = kern.bits_to_float(v["v"]) if isinstance(v["v"], str) and v["v"].startswith("0x") else float(v["v"])
            return Cell("false", "f64", self.lit("f64", fractions.Fraction(f) if self.mode == "math" else f))
        if t == "Boolean":
            return Cell("false", "bool", "true" if v["v"] else "false")
        if t == "Text":
            return Cell("false", "str", self.str_code(v["v"]))
        if t == "Optional":
            if v["v"] is None:
                return Cell("true", "i64", self.lit("i64", 0), True)
            c = self.value_cell(v["v"])
            return Cell("false", c.ty, c.t, True)
        raise Unsupported("literal of type " + t)

    def new(self, ty, hint):
        self.fresh_n += 1
        n = "%s_%d" % (hint, self.fresh_n)
        sort = {"bool": "Bool", "str": "Int" if self.mode == "math" else "(_ BitVec 64)"}.get(ty) or self.enc.sort(ty)
        self.extra_decls.append("(declare-const %s %s)" % (n, sort))
        return n

    # ---- evaluation
    def eval(self, e, env, rowkey=""):
        k = e["e"]
        if k == "Column":
            path = tuple(e["path"])
            if path in env:
                return env[path]
            if path[-1:] in env:
                return env[path[-1:]]
            raise Unsupported("unknown column %s" % ".".join(path))
        if k == "Value":
            return self.value_cell(e["v"])
        if k == "Function":
            return self.func(e["f"], e.get("n"), [a for a in e["args"]], env, rowkey)
        raise Unsupported("expression kind " + k)

    def nulls(self, cells):
        if self.null_mode == "value" and len(cells) > 1:
            # function::Optional over a struct argument: any Optional-typed field (even Some) makes the conversion fail -> NULL
            return lor([("true" if c.opt else "false") for c in cells] + [c.n for c in cells])
        return lor([c.n for c in cells])

    def numeric_common(self, cells):
        if all(c.ty in ("i64", "bool") for c in cells) and any(c.ty == "i64" for c in cells):
            return "i64"   # Boolean -> Integer injection: the integer implementation accepts booleans
        if all(c.ty in ("i64", "f64", "bool") for c in cells):
            return "f64"
        raise Unsupported("non numeric operands " + ",".join(c.ty for c in cells))

    def func(self, f, n, args, env, rowkey):
        b = self.b
        if f == "Random":
            key = (rowkey, n)
            if key not in self.random:
                r = self.new("f64", "rnd")
                self.random[key] = r
                if self.mode == "math":
                    self.extra_side.append("(and (<= 0.0 %s) (< %s 1.0))" % (r, r))
                else:
                    self.extra_side.append("(and (fp.leq %s %s) (fp.lt %s %s))" % (smt.fp_lit(0.0), r, r, smt.fp_lit(1.0)))
            return Cell("false", "f64", self.random[key])
        if f == "Pi":
            import math
            return Cell("false", "f64", self.lit("f64", fractions.Fraction(math.pi) if self.mode == "math" else math.pi))
        if f == "InList":
            cells = [self.eval(args[0], env, rowkey)]
        else:
            cells = [self.eval(a, env, rowkey) for a in args]
        if f in ARITH:
            ty = self.numeric_common(cells)
            cs = [b.promote(c, ty) for c in cells]
            name = b.kernel_name(f, 0 if ty == "i64" else 1)
            if name is None:
                raise Unsupported("kernel of " + f)
            v = b.apply(name, [c.t for c in cs])
            return Cell(self.nulls(cells), ty, v.t)
        if f == "Modulo":
            if [c.ty for c in cells] != ["i64", "i64"]:
                raise Unsupported("modulo on non integers")
            v = b.apply(b.kernel_name(f, 0), [c.t for c in cells])
            return Cell(self.nulls(cells), "i64", v.t)
        if f in COMPARE:
            if all(c.ty == "str" for c in cells):
                raise Unsupported("text ordering")
            ty = self.numeric_common(cells)
            cs = [b.promote(c, ty) for c in cells]
            v = b.apply(b.kernel_name(f, 0 if ty == "i64" else 1), [c.t for c in cs])
            return Cell(self.nulls(cells), "bool", v.t)
        if f in ("Eq", "NotEq"):
            x, y = cells
            if x.ty == y.ty:
                cs = [x, y]
            elif self.null_mode == "value":
                raise Unsupported("Eq on mixed variants under Expr::value semantics")
            else:
                ty = self.numeric_common(cells)
                cs = [b.promote(c, ty) for c in cells]
            if cs[0].ty == "f64" and self.mode == "bv":
                eq = "(fp.eq %s %s)" % (cs[0].t, cs[1].t)
            elif self.mode == "math" and cs[0].ty in ("i64", "str") and re.fullmatch(r"-?\d+|\(- \d+\)", cs[0].t) and re.fullmatch(r"-?\d+|\(- \d+\)", cs[1].t):
                eq = "true" if cs[0].t == cs[1].t else "false"   # literal keys (concrete layouts)
            else:
                eq = "(= %s %s)" % (cs[0].t, cs[1].t)
            return Cell(self.nulls(cells), "bool", eq if f == "Eq" else lnot(eq))
        if f in ("And", "Or"):
            x, y = cells
            if x.ty != "bool" or y.ty != "bool":
                raise Unsupported("boolean operator on " + x.ty)
            v = b.apply(b.kernel_name(f, 0), [x.t, y.t]).t
            if self.null_mode == "value":
                return Cell(self.nulls(cells), "bool", v)
            if f == "And":   # SQL three-valued logic
                false_ = lor([land([lnot(x.n), lnot(x.t)]), land([lnot(y.n), lnot(y.t)])])
                return Cell(land([lnot(false_), lor([x.n, y.n])]), "bool", land([lnot(false_), v]))
            true_ = lor([land([lnot(x.n), x.t]), land([lnot(y.n), y.t])])
            return Cell(land([lnot(true_), lor([x.n, y.n])]), "bool", lor([true_, v]))
        if f in ("Not", "Xor", "BitwiseAnd", "BitwiseOr", "BitwiseXor"):
            if any(c.ty != "bool" for c in cells):
                raise Unsupported(f + " on non booleans")
            v = b.apply(b.kernel_name(f, 0), [c.t for c in cells])
            return Cell(self.nulls(cells), "bool", v.t)
        if f in FLOAT_UNARY:
            (x,) = cells
            if x.ty not in ("i64", "f64", "bool"):
                raise Unsupported(f + " on " + x.ty)
            xf = b.promote(x, "f64")
            v = b.apply(b.kernel_name(f, 0), [xf.t])
            return Cell(x.n, FLOAT_UNARY[f], v.t, x.opt)
        if f in ("Round", "Trunc"):
            x, d = cells
            xf = b.promote(x, "f64")
            if d.ty != "i64":
                raise Unsupported("round digits")
            v = b.apply(b.kernel_name(f, 0), [xf.t, d.t])
            return Cell(self.nulls(cells), "f64", v.t)
        if f == "Pow":
            # a literal small non-negative integer exponent is a product (the DP variance squares with pow(x, 2)); anything else
            # goes to the uninterpreted libm powf
            ea = args[1]
            if self.mode == "math" and ea.get("e") == "Value" and ea["v"]["t"] in ("Integer", "Float"):
                try:
                    ev_ = float(int(ea["v"]["v"])) if ea["v"]["t"] == "Integer" else (kern.bits_to_float(ea["v"]["v"]) if isinstance(ea["v"]["v"], str) else float(ea["v"]["v"]))
                except Exception:
                    ev_ = None
                if ev_ is not None and ev_ == int(ev_) and 0 <= int(ev_) <= 4:
                    x = b.promote(cells[0], "f64")
                    t = "1.0" if int(ev_) == 0 else ("(* %s)" % " ".join([x.t] * int(ev_)) if int(ev_) > 1 else x.t)
                    return Cell(x.n, "f64", t)
            x, y = [b.promote(c, "f64") for c in cells]
            v = b.apply(b.kernel_name(f, 0), [x.t, y.t])
            return Cell(self.nulls(cells), "f64", v.t)
        if f in ("CastAsFloat", "CastAsInteger"):
            (x,) = cells
            src = "i64" if f == "CastAsFloat" else "f64"
            if x.ty != src:
                if f == "CastAsFloat" and x.ty == "f64":
                    return x
                if f == "CastAsInteger" and x.ty == "i64":
                    return x
                raise Unsupported("%s on %s" % (f, x.ty))
            v = b.apply(b.kernel_name(f, 0), [x.t])
            return Cell(x.n, "f64" if f == "CastAsFloat" else "i64", v.t, x.opt)
        if f == "IsNull":
            (x,) = cells
            if self.null_mode == "value":
                # function::Optional wraps is_null too: a NULL argument never reaches it (NULL in, NULL out), Some(v) gives Some(false)
                return Cell(x.n, "bool", "false", x.opt)
            return Cell("false", "bool", x.n)
        if f == "Coalesce":
            x, y = cells
            ty = x.ty if x.ty == y.ty else self.numeric_common(cells)
            x, y = (b.promote(x, ty), b.promote(y, ty)) if x.ty != y.ty else (x, y)
            return Cell(land([x.n, y.n]), ty, ite(x.n, y.t, x.t))
        if f == "Case":
            c, x, y = cells
            if c.ty != "bool":
                raise Unsupported("case condition")
            if self.null_mode == "value" and x.ty != y.ty and "bool" in (x.ty, y.ty):
                # Case::value returns the taken branch's value in its own variant; a Boolean against a number cannot be
                # given one static type here (numbers of different variants can: the image check is injection tolerant)
                raise Unsupported("case branches of boolean and numeric variants")
            ty = x.ty if x.ty == y.ty else self.numeric_common([x, y])
            x, y = (b.promote(x, ty), b.promote(y, ty)) if x.ty != y.ty else (x, y)
            take = land([lnot(c.n), c.t])
            if self.null_mode == "value":
                # Case::value: an Optional condition (or branch) goes through function::Optional like every struct argument
                return Cell(lor([self.nulls(cells), ite(take, x.n, y.n)]), ty, ite(take, x.t, y.t))
            return Cell(ite(take, x.n, y.n), ty, ite(take, x.t, y.t))
        if f == "InList":
            x = cells[0]
            lst = args[1]
            if lst["e"] != "Value" or lst["v"]["t"] != "List":
                raise Unsupported("IN with a non literal list")
            alts = []
            for item in lst["v"]["v"]:
                c = self.value_cell(item)
                if c.ty != x.ty:
                    ty = self.numeric_common([c, x])
                    c, xx = b.promote(c, ty), b.promote(x, ty)
                else:
                    xx = x
                alts.append("(fp.eq %s %s)" % (xx.t, c.t) if (xx.ty == "f64" and self.mode == "bv") else "(= %s %s)" % (xx.t, c.t))
            return Cell(x.n, "bool", lor(alts))
        if f in ("Md5", "CastAsText"):
            (x,) = cells
            uf = "uf_%s_%s" % (f.lower(), x.ty)
            sort_in = {"i64": self.enc.sort("i64"), "f64": self.enc.sort("f64"), "bool": "Bool", "str": self.enc.sort("i64")}[x.ty]
            sort_out = self.enc.sort("i64")
            d = "(declare-fun %s (%s) %s)" % (uf, sort_in, sort_out)
            if d not in self.extra_decls:
                self.extra_decls.append(d)
            # hashing / text casts are modelled as injective on the values that occur (an md5 collision among the ids of a
            # bounded database is outside the claim): recorded here, asserted pairwise by injectivity_constraints()
            if not hasattr(self, "uf_apps"):
                self.uf_apps = {}
            self.uf_apps.setdefault(uf, [])
            if x.t not in self.uf_apps[uf]:
                self.uf_apps[uf].append(x.t)
            return Cell(x.n, "str", "(%s %s)" % (uf, x.t), x.opt)
        raise Unsupported("function " + f)

    def declarations(self):
        if self.b.decls is self.extra_decls:
            return self.b.decls
        return self.b.decls + self.extra_decls

    def injectivity_constraints(self):
        out = []
        for uf, args in getattr(self, "uf_apps", {}).items():
            for i in range(len(args)):
                for j in range(i):
                    if args[i] != args[j]:
                        out.append("(=> (not (= %s %s)) (not (= (%s %s) (%s %s))))" % (args[i], args[j], uf, args[i], uf, args[j]))
        return out

    def side_constraints(self):
        return self.b.side + self.extra_side + self.injectivity_constraints()
