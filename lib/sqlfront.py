"""An independent front end for the SQL fragment of C08: a lark grammar and a direct symbolic evaluator of SQL text over a
bounded symbolic database (SymRel's Row / Cell / Ctx and its scalar-expression and aggregate semantics are reused; the
parsing, name resolution, grouping, join-column handling, set operations, ordering and limits are this module's own and
share nothing with Qrlew's sql -> Relation compiler).

Semantics: SQL bag semantics with three-valued logic, as PostgreSQL / SQLite agree on for this fragment:
  * FROM items left to right, joins nest to the left; USING / NATURAL put the merged columns first (COALESCE of both sides);
  * WHERE keeps rows whose predicate is TRUE; GROUP BY on expressions, select aliases or positions; HAVING after grouping;
  * an aggregate query without GROUP BY returns exactly one row;
  * DISTINCT, UNION [ALL], INTERSECT, EXCEPT on NULL-safe row equality;
  * ORDER BY keys may name output aliases, positions or input expressions; LIMIT / OFFSET by rank (ties are assumed away);
  * `SELECT * FROM x` without further clauses preserves the order of x (what the rendered CTE chains rely on).
"""
import re
from lark import Lark, Transformer, Tree, Token
import symrel, exprsem
from symrel import Row, Unsupported
from exprsem import Cell
from smt import land, lor, lnot, ite

GRAMMAR = r"""
start: query ";"?
query: with_clause? set_expr order_clause? limit_clause? offset_clause?
with_clause: WITH cte ("," cte)*
cte: ident col_list? AS "(" query ")"
col_list: "(" ident ("," ident)* ")"
?set_expr: set_term
         | set_expr UNION set_quant? set_term   -> union
         | set_expr EXCEPT set_quant? set_term  -> except_
         | set_expr INTERSECT set_quant? set_term -> intersect
!set_quant: ALL | DISTINCT
?set_term: select | "(" query ")" -> paren_query
select: SELECT distinct? select_items from_clause? where_clause? group_clause? having_clause?
!distinct: DISTINCT
select_items: select_item ("," select_item)*
select_item: "*" -> star
           | ident "." "*" -> qstar
           | expr (AS? ident)? -> item
from_clause: FROM from_item ("," from_item)*
?from_item: table_factor
          | from_item join_kind table_factor join_cond? -> join
!join_kind: JOIN | INNER JOIN | LEFT OUTER? JOIN | RIGHT OUTER? JOIN | FULL OUTER? JOIN | CROSS JOIN
          | NATURAL JOIN | NATURAL INNER JOIN | NATURAL LEFT OUTER? JOIN | NATURAL RIGHT OUTER? JOIN | NATURAL FULL OUTER? JOIN
join_cond: ON expr -> on
         | USING "(" ident ("," ident)* ")" -> using
table_factor: name (AS? ident)? -> table
            | "(" query ")" AS? ident -> derived
            | "(" from_item ")" -> paren_from
name: ident ("." ident)*
where_clause: WHERE expr
group_clause: GROUP BY expr ("," expr)*
having_clause: HAVING expr
order_clause: ORDER BY order_item ("," order_item)*
order_item: expr (ASC | DESC)?
limit_clause: LIMIT INT
offset_clause: OFFSET INT

?expr: or_expr
?or_expr: and_expr | or_expr OR and_expr -> or_
?and_expr: not_expr | and_expr AND not_expr -> and_
?not_expr: pred | NOT not_expr -> not_
?pred: add
     | add CMP add -> cmp
     | add IS NULL -> is_null
     | add IS NOT NULL -> is_not_null
     | add IN "(" expr ("," expr)* ")" -> in_list
     | add NOT IN "(" expr ("," expr)* ")" -> not_in_list
     | add BETWEEN add AND add -> between
     | add NOT BETWEEN add AND add -> not_between
?add: mul | add ADDOP mul -> binop
?mul: unary | mul MULOP unary -> binop
?unary: primary | "-" unary -> neg | "+" unary
?primary: INT -> int_lit
        | FLOAT -> float_lit
        | STRING -> str_lit
        | TRUE -> true_lit
        | FALSE -> false_lit
        | NULL -> null_lit
        | CASE when_clause+ else_clause? END -> case
        | CASE expr when_clause+ else_clause? END -> case_operand
        | CAST "(" expr AS type_name ")" -> cast
        | ident "(" "*" ")" -> call_star
        | ident "(" DISTINCT expr ")" -> call_distinct
        | ident "(" (expr ("," expr)*)? ")" -> call
        | name -> column
        | "(" expr ")"
when_clause: WHEN expr THEN expr
else_clause: ELSE expr
!type_name: ident ("(" INT ("," INT)? ")")? | DOUBLE PRECISION
ident: IDENT | QIDENT

CMP: "<>" | "!=" | "<=" | ">=" | "=" | "<" | ">"
ADDOP: "+" | "-"
MULOP: "*" | "/" | "%"
INT: /\d+/
FLOAT: /\d+\.\d*([eE][+-]?\d+)?|\.\d+([eE][+-]?\d+)?|\d+[eE][+-]?\d+/
STRING: /'([^']|'')*'/
QIDENT: /"([^"]|"")+"/
IDENT.0: /[A-Za-z_][A-Za-z0-9_]*/
%import common.WS
%ignore WS
""" + "\n".join('%s.2: /%s(?![A-Za-z0-9_])/i' % (k, k) for k in
                 "WITH AS UNION EXCEPT INTERSECT ALL DISTINCT SELECT FROM JOIN INNER LEFT RIGHT FULL OUTER CROSS NATURAL ON USING WHERE GROUP BY HAVING ORDER ASC DESC LIMIT OFFSET OR AND NOT IS NULL IN BETWEEN TRUE FALSE CASE WHEN THEN ELSE END CAST DOUBLE PRECISION".split())

_PARSER = None


def parser():
    global _PARSER
    if _PARSER is None:
        _PARSER = Lark(GRAMMAR, parser="lalr", maybe_placeholders=False)
    return _PARSER


def parse(sql):
    return parser().parse(sql)


# ------------------------------------------------------------------------------------------------ AST helpers

def tok(t):
    return t.type if isinstance(t, Token) else None


def ident_of(t):
    """ident tree -> python string (quotes removed)"""
    x = t.children[0]
    s = str(x)
    if x.type == "QIDENT":
        return s[1:-1].replace('""', '"')
    return s


def name_of(t):
    return [ident_of(c) for c in t.children]


AGGS = {"count": "Count", "sum": "Sum", "avg": "Mean", "mean": "Mean", "min": "Min", "max": "Max", "first": "First", "last": "Last",
        "var": "Var", "variance": "Var", "stddev": "Std", "std": "Std"}
FUNCS = {"abs": "Abs", "coalesce": "Coalesce", "greatest": "Greatest", "least": "Least", "ceil": "Ceil", "floor": "Floor", "sign": "Sign", "exp": "Exp", "ln": "Ln", "sqrt": "Sqrt",
         "round": "Round", "trunc": "Trunc", "pow": "Pow", "power": "Pow", "md5": "Md5", "sin": "Sin", "cos": "Cos", "log": "Log"}
CMPS = {"=": "Eq", "<>": "NotEq", "!=": "NotEq", "<": "Lt", ">": "Gt", "<=": "LtEq", ">=": "GtEq"}
BINS = {"+": "Plus", "-": "Minus", "*": "Multiply", "/": "Divide", "%": "Modulo"}


def fn(f, *args):
    return {"e": "Function", "f": f, "args": list(args)}


def is_agg_call(t):
    return isinstance(t, Tree) and t.data in ("call", "call_star", "call_distinct") and ident_of(t.children[0]).lower() in AGGS


def has_agg(t):
    if not isinstance(t, Tree):
        return False
    if is_agg_call(t):
        return True
    if t.data in ("query", "select"):
        return False
    return any(has_agg(c) for c in t.children)


class Col:
    def __init__(self, qual, name, key):
        self.qual, self.name, self.key = qual, name, key   # key: index into the row's cell dict


class R:
    """a relation value: ordered columns, rows (symrel.Row with cells keyed by column key), optional sort keys per row"""
    def __init__(self, cols, rows, order=None):
        self.cols, self.rows, self.order = cols, rows, order


class Front:
    def __init__(self, ctx, tables):
        """tables: {name: symrel.Rel} (symbolic base tables, cells keyed by column name)"""
        self.ctx, self.tables = ctx, tables
        self.n = 0

    def key(self):
        self.n += 1
        return "k%d" % self.n

    # ---------------------------------------------------------------- queries
    def query(self, t, ctes):
        ctes = dict(ctes)
        parts = {c.data: c for c in t.children if isinstance(c, Tree)}
        body = [c for c in t.children if isinstance(c, Tree) and c.data not in ("with_clause", "order_clause", "limit_clause", "offset_clause")][0]
        if "with_clause" in parts:
            for c in parts["with_clause"].children:
                if not isinstance(c, Tree):
                    continue
                cname = ident_of(c.children[0])
                cl = [x for x in c.children if isinstance(x, Tree) and x.data == "col_list"]
                q = [x for x in c.children if isinstance(x, Tree) and x.data == "query"][0]
                r = self.query(q, ctes)
                if cl:
                    names = [ident_of(i) for i in cl[0].children]
                    if len(names) != len(r.cols):
                        raise Unsupported("CTE column list of a different length")
                    r = R([Col(None, n, c_.key) for n, c_ in zip(names, r.cols)], r.rows, r.order)
                ctes[cname] = r
        order, lim, off = parts.get("order_clause"), parts.get("limit_clause"), parts.get("offset_clause")
        if body.data == "select":
            r = self.select(body, ctes, order)
        else:
            r = self.set_expr(body, ctes)
            if order is not None:
                r = self.order_output(r, order, None)
        if lim is not None or off is not None:
            r = self.limit(r, int(lim.children[1]) if lim is not None else None, int(off.children[1]) if off is not None else 0)
        return r

    def set_expr(self, t, ctes):
        if t.data == "select":
            return self.select(t, ctes, None)
        if t.data in ("paren_query",):
            return self.query(t.children[0], ctes)
        if t.data == "query":
            return self.query(t, ctes)
        if t.data in ("union", "except_", "intersect"):
            kids = [c for c in t.children if isinstance(c, Tree)]
            quant = [c for c in kids if c.data == "set_quant"]
            sides = [c for c in kids if c.data != "set_quant"]
            all_ = bool(quant) and tok(quant[0].children[0]) == "ALL"
            a, b = self.set_expr(sides[0], ctes), self.set_expr(sides[1], ctes)
            if len(a.cols) != len(b.cols):
                raise Unsupported("set operation on different widths")
            cols = [Col(None, c.name, self.key()) for c in a.cols]
            conv = lambda r, src: Row(r.p, {c.key: r.cells[s.key] for c, s in zip(cols, src.cols)})
            ra, rb = [conv(r, a) for r in a.rows], [conv(r, b) for r in b.rows]
            keys = [c.key for c in cols]
            eq = lambda x, y: land([symrel.cell_eq(x.cells[k], y.cells[k]) for k in keys])
            out = []
            if t.data == "union":
                allr = ra + rb
                if all_:
                    return R(cols, allr)
                for i, r in enumerate(allr):
                    dup = [land([allr[j].p, eq(allr[j], r)]) for j in range(i)]
                    out.append(Row(self.ctx.name(land([r.p] + [lnot(x) for x in dup]), "bool", "fu"), r.cells))
                return R(cols, out)
            if all_:
                raise Unsupported("INTERSECT / EXCEPT ALL")
            for i, r in enumerate(ra):
                dup = [land([ra[j].p, eq(ra[j], r)]) for j in range(i)]
                inr = lor([land([s.p, eq(s, r)]) for s in rb])
                keep = inr if t.data == "intersect" else lnot(inr)
                out.append(Row(self.ctx.name(land([r.p, keep] + [lnot(x) for x in dup]), "bool", "fs"), r.cells))
            return R(cols, out)
        raise Unsupported("set expression " + t.data)

    # ---------------------------------------------------------------- FROM
    def from_item(self, t, ctes):
        if t.data == "table":
            nm = name_of(t.children[0])
            alias = [ident_of(c) for c in t.children[1:] if isinstance(c, Tree) and c.data == "ident"]
            base = nm[-1]
            qual = alias[0] if alias else base
            if len(nm) == 1 and base in ctes:
                src = ctes[base]
                return R([Col(qual, c.name, c.key) for c in src.cols], src.rows, src.order)
            if base in self.tables and len(nm) == 1:
                rel = self.tables[base]
                cols = [Col(qual, n, self.key()) for n in rel.cols]
                rows = [Row(r.p, {c.key: r.cells[c.name] for c in cols}) for r in rel.rows]
                return R(cols, rows)
            raise Unsupported("unknown table " + ".".join(nm))
        if t.data == "derived":
            q = [c for c in t.children if isinstance(c, Tree) and c.data == "query"][0]
            alias = ident_of([c for c in t.children if isinstance(c, Tree) and c.data == "ident"][0])
            src = self.query(q, ctes)
            return R([Col(alias, c.name, c.key) for c in src.cols], src.rows, src.order)
        if t.data == "paren_from":
            return self.from_item(t.children[0], ctes)
        if t.data == "join":
            left = self.from_item(t.children[0], ctes)
            kind = [str(x).upper() for x in t.children[1].children]
            right = self.from_item(t.children[2], ctes)
            cond = t.children[3] if len(t.children) > 3 else None
            return self.join(left, right, kind, cond)
        raise Unsupported("from item " + t.data)

    def join(self, left, right, kind, cond):
        natural = "NATURAL" in kind
        outer_l = "LEFT" in kind or "FULL" in kind
        outer_r = "RIGHT" in kind or "FULL" in kind
        cross = "CROSS" in kind
        # a right key may reuse a left key only if the same relation value appears twice (self join through a CTE): re-key
        lkeys = {c.key for c in left.cols}
        if any(c.key in lkeys for c in right.cols):
            m = {c.key: self.key() for c in right.cols}
            right = R([Col(c.qual, c.name, m[c.key]) for c in right.cols], [Row(r.p, {m[k]: v for k, v in r.cells.items()}) for r in right.rows])
        cols = left.cols + right.cols
        merged = []
        if natural:
            ln = [c.name for c in left.cols]
            merged = [c.name for c in right.cols if c.name in ln]
        elif cond is not None and cond.data == "using":
            merged = [ident_of(c) for c in cond.children if isinstance(c, Tree) and c.data == "ident"]
        pairs = []
        for n in merged:
            lc = [c for c in left.cols if c.name == n]
            rc = [c for c in right.cols if c.name == n]
            if len(lc) != 1 or len(rc) != 1:
                raise Unsupported("USING column not unique on a side")
            pairs.append((lc[0], rc[0]))
        scope = Scope(cols)
        rows, match = [], {}
        for i, l in enumerate(left.rows):
            for j, r in enumerate(right.rows):
                cells = dict(l.cells)
                cells.update(r.cells)
                if cross or (cond is None and not natural):
                    on = "true"
                elif pairs or natural:
                    on = land([land([lnot(cells[a.key].n), lnot(cells[b.key].n), eq_term(cells[a.key], cells[b.key], self.ctx)]) for a, b in pairs])
                else:
                    c = self.scalar(cond.children[1], scope, cells, "j%d_%d_%d" % (self.n, i, j))
                    on = land([lnot(c.n), c.t])
                m = self.ctx.name(land([l.p, r.p, on]), "bool", "fj")
                match[(i, j)] = m
                rows.append(Row(m, cells))
        nullrow = lambda side: {c.key: Cell("true", (side.rows[0].cells[c.key].ty if side.rows else "i64"), symrel.zero(side.rows[0].cells[c.key].ty if side.rows else "i64"), True) for c in side.cols}
        if outer_l:
            for i, l in enumerate(left.rows):
                none = land([lnot(match[(i, j)]) for j in range(len(right.rows))])
                cells = dict(l.cells)
                cells.update(nullrow(right))
                rows.append(Row(self.ctx.name(land([l.p, none]), "bool", "fl"), cells))
        if outer_r:
            for j, r in enumerate(right.rows):
                none = land([lnot(match[(i, j)]) for i in range(len(left.rows))])
                cells = dict(nullrow(left))
                cells.update(r.cells)
                rows.append(Row(self.ctx.name(land([r.p, none]), "bool", "fr"), cells))
        rows = symrel.prune(rows)
        if pairs:
            # merged columns first (COALESCE(left, right)), then the remaining columns of both sides
            out_cols, drop = [], set()
            for a, b in pairs:
                k = self.key()
                for r in rows:
                    x, y = r.cells[a.key], r.cells[b.key]
                    r.cells[k] = Cell(land([x.n, y.n]), x.ty, ite(x.n, y.t, x.t), True)
                out_cols.append(Col(None, a.name, k))
                drop |= {a.key, b.key}
            out_cols += [c for c in cols if c.key not in drop]
            cols = out_cols
        return R(cols, rows)

    # ---------------------------------------------------------------- SELECT
    def select(self, t, ctes, order):
        parts = {c.data: c for c in t.children if isinstance(c, Tree)}
        if "from_clause" in parts:
            items = [c for c in parts["from_clause"].children if isinstance(c, Tree)]
            src = self.from_item(items[0], ctes)
            for it in items[1:]:
                src = self.join(src, self.from_item(it, ctes), ["CROSS", "JOIN"], None)
        else:
            src = R([], [Row("true", {})])
        scope = Scope(src.cols)
        rows = src.rows
        plain_star = False
        if "where_clause" in parts:
            kept = []
            for i, r in enumerate(rows):
                c = self.scalar(parts["where_clause"].children[1], scope, r.cells, "w%d_%d" % (self.n, i))
                kept.append(Row(self.ctx.name(land([r.p, lnot(c.n), c.t]), "bool", "fw"), r.cells))
            rows = symrel.prune(kept)
        # select list
        items = []   # (name or None, expr tree or ('col', Col))
        for it in parts["select_items"].children:
            if it.data == "star":
                items += [(c.name, ("col", c)) for c in src.cols]
            elif it.data == "qstar":
                q = ident_of(it.children[0])
                cs = [c for c in src.cols if c.qual == q]
                if not cs:
                    raise Unsupported("unknown qualifier in q.*")
                items += [(c.name, ("col", c)) for c in cs]
            else:
                e = it.children[0]
                al = [ident_of(c) for c in it.children[1:] if isinstance(c, Tree) and c.data == "ident"]
                nm = al[0] if al else (name_of(e.children[0])[-1] if isinstance(e, Tree) and e.data == "column" else None)
                items.append((nm, e))
        only_star = all(isinstance(e, tuple) for _, e in items)
        grouped = "group_clause" in parts or "having_clause" in parts or any(has_agg(e) for _, e in items if not isinstance(e, tuple)) or (order is not None and has_agg(order))
        out_cols = [Col(None, nm, self.key()) for nm, _ in items]
        aliases = {nm: e for nm, e in items if nm is not None and not isinstance(e, tuple)}
        out_rows, envs = [], []   # envs: per output row, the evaluation context for ORDER BY on input expressions
        if not grouped:
            for i, r in enumerate(rows):
                cells = {}
                for (nm, e), oc in zip(items, out_cols):
                    cells[oc.key] = r.cells[e[1].key] if isinstance(e, tuple) else self.ctx.name_cell(self.scalar(e, scope, r.cells, "s%d_%d" % (self.n, i)), "fs")
                out_rows.append(Row(r.p, cells))
                envs.append(("row", r.cells))
        else:
            gexprs = []
            if "group_clause" in parts:
                for g in parts["group_clause"].children:
                    if not isinstance(g, Tree):
                        continue
                    if g.data == "int_lit":
                        k = int(g.children[0]) - 1
                        e = items[k][1]
                        gexprs.append(("col", e[1]) if isinstance(e, tuple) else e)
                    elif g.data == "column" and len(g.children[0].children) == 1 and not scope.find(name_of(g.children[0])) and name_of(g.children[0])[0] in aliases:
                        gexprs.append(aliases[name_of(g.children[0])[0]])
                    else:
                        gexprs.append(g)
            keys = []
            for i, r in enumerate(rows):
                keys.append([r.cells[g[1].key] if isinstance(g, tuple) else self.ctx.name_cell(self.scalar(g, scope, r.cells, "g%d_%d" % (self.n, i)), "fg") for g in gexprs])
            reps = list(range(len(rows))) if gexprs else [None]
            for i in reps:
                if i is None:
                    members = [r.p for r in rows]
                    p_out = "true"
                    repcells = rows[0].cells if rows else {}
                else:
                    same = lambda j: land([symrel.cell_eq(a, b) for a, b in zip(keys[j], keys[i])])
                    members = [self.ctx.name(land([rows[j].p, same(j)]), "bool", "fm") for j in range(len(rows))]
                    p_out = self.ctx.name(land([rows[i].p] + [lnot(m) for m in members[:i]]), "bool", "fr")
                    repcells = rows[i].cells
                if p_out == "false":
                    continue
                genv = ("group", repcells, rows, members, scope, i)
                if "having_clause" in parts:
                    h = self.scalar(parts["having_clause"].children[1], scope, repcells, "h%d_%s" % (self.n, i), group=genv)
                    p_out = self.ctx.name(land([p_out, lnot(h.n), h.t]), "bool", "fh")
                cells = {}
                for (nm, e), oc in zip(items, out_cols):
                    if isinstance(e, tuple):
                        cells[oc.key] = repcells[e[1].key] if repcells else Cell("true", "i64", "0", True)
                    else:
                        cells[oc.key] = self.ctx.name_cell(self.scalar(e, scope, repcells, "a%d_%s" % (self.n, i), group=genv), "fa")
                out_rows.append(Row(p_out, cells))
                envs.append(genv)
        out = R(out_cols, symrel.prune(out_rows))
        live_envs = [e for r, e in zip(out_rows, envs) if r.p != "false"]
        if "distinct" in parts:
            ks = [c.key for c in out_cols]
            ded = []
            for i, r in enumerate(out.rows):
                dup = [land([out.rows[j].p, land([symrel.cell_eq(out.rows[j].cells[k], r.cells[k]) for k in ks])]) for j in range(i)]
                ded.append(Row(self.ctx.name(land([r.p] + [lnot(x) for x in dup]), "bool", "fd"), r.cells))
            out = R(out_cols, ded)
        if order is not None:
            out = self.order_output(out, order, (scope, live_envs, aliases))
        elif only_star and not grouped and "where_clause" not in parts and "distinct" not in parts and src.order is not None and len(src.rows) == len(out.rows):
            out.order = src.order   # SELECT * FROM x keeps the order of x
        return out

    def order_output(self, r, order, inner):
        """attach sort keys: output aliases / positions first, then (for a plain select) expressions over the input row"""
        keys = []
        names = {c.name: c for c in r.cols if c.name is not None}
        for i, row in enumerate(r.rows):
            ks = []
            for it in order.children:
                if not isinstance(it, Tree):
                    continue
                e = it.children[0]
                asc = not (len(it.children) > 1 and tok(it.children[1]) == "DESC")
                if e.data == "int_lit":
                    c = row.cells[r.cols[int(e.children[0]) - 1].key]
                elif e.data == "column" and len(e.children[0].children) == 1 and name_of(e.children[0])[0] in names:
                    c = row.cells[names[name_of(e.children[0])[0]].key]
                elif inner is not None:
                    scope, envs, aliases = inner
                    env = envs[i]
                    if env[0] == "row":
                        c = self.scalar(e, scope, env[1], "o%d_%d" % (self.n, i))
                    else:
                        c = self.scalar(e, scope, env[1], "o%d_%d" % (self.n, i), group=env)
                else:
                    raise Unsupported("ORDER BY expression over a set operation")
                ks.append((c, asc))
            keys.append(ks)
        # ties make the result order (and LIMIT) non deterministic: assumed away, as in symrel.limit_offset
        for i in range(len(r.rows)):
            for j in range(i):
                self.ctx.asserts.append("(=> %s (not %s))" % (land([r.rows[i].p, r.rows[j].p]), symrel.keys_equal(keys[i], keys[j])))
        return R(r.cols, r.rows, keys)

    def limit(self, r, lim, off):
        out = []
        for i, row in enumerate(r.rows):
            before = []
            for j, s in enumerate(r.rows):
                if i == j:
                    continue
                prec = ("true" if j < i else "false") if r.order is None else symrel.lex_before(r.order[j], r.order[i])
                before.append("(ite %s 1 0)" % land([s.p, prec]))
            rank = "(+ 0 %s)" % " ".join(before) if before else "0"
            cond = ["(>= %s %d)" % (rank, off)]
            if lim is not None:
                cond.append("(< %s %d)" % (rank, off + lim))
            out.append(Row(self.ctx.name(land([row.p] + cond), "bool", "flim"), row.cells))
        return R(r.cols, out, r.order)

    # ---------------------------------------------------------------- scalar expressions -> IR expression JSON -> cells
    def scalar(self, t, scope, cells, rk, group=None):
        env = {}
        e = self.to_ir(t, scope, cells, env, rk, group)
        return self.ctx.ev.eval(e, env, rk)

    def to_ir(self, t, scope, cells, env, rk, group):
        rec = lambda x: self.to_ir(x, scope, cells, env, rk, group)
        d = t.data
        if d == "column":
            c = scope.resolve(name_of(t.children[0]))
            env[(c.key,)] = cells[c.key]
            return {"e": "Column", "path": [c.key]}
        if d == "int_lit":
            return {"e": "Value", "v": {"t": "Integer", "v": str(int(t.children[0]))}}
        if d == "float_lit":
            return {"e": "Value", "v": {"t": "Float", "v": float(t.children[0])}}
        if d == "str_lit":
            return {"e": "Value", "v": {"t": "Text", "v": str(t.children[0])[1:-1].replace("''", "'")}}
        if d in ("true_lit", "false_lit"):
            return {"e": "Value", "v": {"t": "Boolean", "v": d == "true_lit"}}
        if d == "null_lit":
            return {"e": "Value", "v": {"t": "Optional", "v": None}}
        if d in ("or_", "and_"):
            return fn("Or" if d == "or_" else "And", rec(t.children[0]), rec(t.children[2]))
        if d == "not_":
            return fn("Not", rec(t.children[1]))
        if d == "cmp":
            return fn(CMPS[str(t.children[1])], rec(t.children[0]), rec(t.children[2]))
        if d == "is_null":
            return fn("IsNull", rec(t.children[0]))
        if d == "is_not_null":
            return fn("Not", fn("IsNull", rec(t.children[0])))
        if d in ("in_list", "not_in_list"):
            kids = [c for c in t.children if isinstance(c, Tree)]
            x = rec(kids[0])
            alts = None
            for k in kids[1:]:
                eq = fn("Eq", x, rec(k))
                alts = eq if alts is None else fn("Or", alts, eq)
            return alts if d == "in_list" else fn("Not", alts)
        if d in ("between", "not_between"):
            kids = [c for c in t.children if isinstance(c, Tree)]
            x, lo, hi = rec(kids[0]), rec(kids[1]), rec(kids[2])
            b = fn("And", fn("GtEq", x, lo), fn("LtEq", x, hi))
            return b if d == "between" else fn("Not", b)
        if d == "binop":
            return fn(BINS[str(t.children[1])], rec(t.children[0]), rec(t.children[2]))
        if d == "neg":
            x = rec(t.children[0])
            if x["e"] == "Value" and x["v"]["t"] == "Integer":
                return {"e": "Value", "v": {"t": "Integer", "v": str(-int(x["v"]["v"]))}}
            if x["e"] == "Value" and x["v"]["t"] == "Float":
                return {"e": "Value", "v": {"t": "Float", "v": -x["v"]["v"]}}
            return fn("Opposite", x)
        if d in ("case", "case_operand"):
            kids = [c for c in t.children if isinstance(c, Tree)]
            operand = None
            if d == "case_operand":
                operand, kids = rec(kids[0]), kids[1:]
            whens = [k for k in kids if k.data == "when_clause"]
            els = [k for k in kids if k.data == "else_clause"]
            out = rec(els[0].children[1]) if els else {"e": "Value", "v": {"t": "Optional", "v": None}}
            for w in reversed(whens):
                c = rec(w.children[1])
                if operand is not None:
                    c = fn("Eq", operand, c)
                out = fn("Case", c, rec(w.children[3]), out)
            return out
        if d == "cast":
            kids = [c for c in t.children if isinstance(c, Tree)]
            ty = "".join(str(x) if isinstance(x, Token) else ident_of(x) for x in kids[1].children).lower()
            x = rec(kids[0])
            if ty in ("integer", "int", "bigint", "smallint"):
                return fn("CastAsInteger", x)
            if ty in ("float", "real", "double", "doubleprecision", "numeric", "decimal"):
                return fn("CastAsFloat", x)
            if ty in ("text", "varchar"):
                return fn("CastAsText", x)
            raise Unsupported("cast to " + ty)
        if d in ("call", "call_star", "call_distinct"):
            f = ident_of(t.children[0]).lower()
            args = [c for c in t.children[1:] if isinstance(c, Tree)]
            if f in AGGS:
                if group is None:
                    raise Unsupported("aggregate outside a grouped context")
                _, repcells, rows, members, gscope, gi = group
                agg = AGGS[f]
                if d == "call_distinct":
                    agg = {"Count": "CountDistinct", "Sum": "SumDistinct", "Mean": "MeanDistinct"}.get(agg)
                    if agg is None:
                        raise Unsupported("DISTINCT " + f)
                if d == "call_star":
                    if agg != "Count":
                        raise Unsupported(f + "(*)")
                    argcells = [Cell("false", "i64", "1") for _ in rows]
                else:
                    if len(args) != 1:
                        raise Unsupported("aggregate arity")
                    argcells = [self.ctx.name_cell(self.scalar(args[0], gscope, r.cells, "%s_x%d" % (rk, j)), "fx") for j, r in enumerate(rows)]
                if not rows:
                    c = Cell("false", "i64", "0") if agg in ("Count", "CountDistinct") else Cell("true", "i64", "0", True)
                else:
                    c = symrel.aggregate(self.ctx, agg, argcells, members, None, "%s_agg" % rk)
                    if agg in ("Var", "Std"):
                        raise Unsupported("variance in the reference semantics")
                k = self.key()
                env[(k,)] = c
                return {"e": "Column", "path": [k]}
            if f not in FUNCS:
                raise Unsupported("function " + f)
            a = [rec(x) for x in args]
            if FUNCS[f] in ("Coalesce", "Greatest", "Least") and len(a) > 2:
                out = a[-1]
                for x in reversed(a[:-1]):
                    out = fn(FUNCS[f], x, out)
                return out
            if FUNCS[f] in ("Round", "Trunc") and len(a) == 1:
                a.append({"e": "Value", "v": {"t": "Integer", "v": "0"}})
            return fn(FUNCS[f], *a)
        raise Unsupported("expression " + d)


def eq_term(a, b, ctx):
    if a.ty == b.ty:
        return symrel.term_eq(a.t, b.t)
    ra = "(to_real %s)" % a.t if a.ty == "i64" else a.t
    rb = "(to_real %s)" % b.t if b.ty == "i64" else b.t
    return "(= %s %s)" % (ra, rb)


class Scope:
    def __init__(self, cols):
        self.cols = cols

    def find(self, parts):
        if len(parts) == 1:
            return [c for c in self.cols if c.name == parts[0]]
        return [c for c in self.cols if c.name == parts[-1] and c.qual == parts[-2]]

    def resolve(self, parts):
        m = self.find(parts)
        if len(m) == 1:
            return m[0]
        if not m:
            raise Unsupported("unknown column " + ".".join(parts))
        if len({c.key for c in m}) == 1:
            return m[0]
        raise Unsupported("ambiguous column " + ".".join(parts))
