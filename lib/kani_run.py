"""Run Kani harnesses of /verif/kani in parallel, each under ulimit -v and timeout, one log each.
verdict per harness: 'success' | 'failed' (a property failed: counterexample) | 'inconclusive' (OOM, timeout, unwinding failure, build error)"""
import os, re, subprocess, sys, time, json
from concurrent.futures import ThreadPoolExecutor

import paths
VERIF = paths.VERIF
KDIR = paths.crate_dir("kani")
LOGS = os.path.join(paths.WORK, "kani-logs")


def list_harnesses():
    src = open(os.path.join(KDIR, "src", "lib.rs")).read()
    names = re.findall(r"^\s*(\w+)!\((\w+),", src, re.M)
    out = [n for _, n in names]
    out += re.findall(r"#\[kani::proof\]\s*(?:#\[kani::unwind\(\d+\)\]\s*)?fn (\w+)\(\)", src)
    out = [n for n in out if not n.startswith("$")]
    seen, res = set(), []
    for n in out:
        if n not in seen:
            seen.add(n)
            res.append(n)
    return res


def build():
    """compile once (codegen only) so that parallel runs share the build"""
    env = dict(os.environ, CARGO_NET_OFFLINE="true", RUSTFLAGS="--cfg qrlew_verif")
    lock = os.path.join(KDIR, "Cargo.lock")
    if not os.path.exists(lock):
        import shutil
        shutil.copy(paths.REPO + "/Cargo.lock", lock)
    t0 = time.time()
    p = subprocess.run(["cargo", "kani", "--only-codegen", "--target-dir", paths.target("kani")], cwd=KDIR, env=env,
                       stdout=subprocess.PIPE, stderr=subprocess.STDOUT, text=True)
    return p.returncode == 0, time.time() - t0, p.stdout[-3000:]


def run_one(h, timeout_s=1500, mem_gb=14, extra=()):
    os.makedirs(LOGS, exist_ok=True)
    log = os.path.join(LOGS, h + ".log")
    env = dict(os.environ, CARGO_NET_OFFLINE="true", RUSTFLAGS="--cfg qrlew_verif")
    tdir = paths.target("kani")
    cmd = "ulimit -v %d; exec timeout %d cargo kani --target-dir %s --harness %s %s" % (mem_gb * 1024 * 1024, timeout_s, tdir, h, " ".join(extra))
    t0 = time.time()
    with open(log, "w") as f:
        p = subprocess.run(["bash", "-c", cmd], cwd=KDIR, env=env, stdout=f, stderr=subprocess.STDOUT)
    secs = time.time() - t0
    txt = open(log).read()
    verdict = "inconclusive"
    why = ""
    if "VERIFICATION:- SUCCESSFUL" in txt:
        verdict = "success"
    elif "VERIFICATION:- FAILED" in txt:
        failed = re.findall(r"Failed Checks: (.*)", txt)
        if "Status: ERROR" in txt or "out of memory" in txt.lower() or "std::bad_alloc" in txt or p.returncode in (124, 137):
            verdict, why = "inconclusive", "solver error / out of memory"
        elif any("unwinding assertion" in x for x in failed):
            verdict, why = "inconclusive", "unwinding assertion failed (bound too small)"
        else:
            verdict, why = "failed", "; ".join(failed[:5])
    elif p.returncode == 124:
        why = "timeout %ds" % timeout_s
    else:
        why = "exit %d: %s" % (p.returncode, txt[-300:].replace("\n", " | "))
    covers = re.findall(r"Check \d+: .*cover.*\n.*- Status: (\w+)", txt)
    cov_sat = len(re.findall(r"Status: SATISFIED", txt))
    cov_unsat = len(re.findall(r"Status: UNSATISFIABLE", txt))
    m = re.search(r"Verification Time: ([0-9.]+)s", txt)
    return dict(harness=h, verdict=verdict, why=why, wall_s=round(secs, 1), verification_time_s=float(m.group(1)) if m else None,
                covers_satisfied=cov_sat, covers_unsatisfiable=cov_unsat, log=log)


def run_many(hs, parallel=4, timeout_s=1500, mem_gb=14):
    with ThreadPoolExecutor(parallel) as ex:
        return list(ex.map(lambda h: run_one(h, timeout_s, mem_gb), hs))


if __name__ == "__main__":
    hs = sys.argv[1:] or list_harnesses()
    ok, secs, out = build()
    print("build", ok, round(secs, 1))
    if not ok:
        print(out)
        sys.exit(2)
    for r in run_many(hs, parallel=int(os.environ.get("KANI_PAR", "4"))):
        print(json.dumps(r))


def playback(h, timeout_s=900):
    """Replay a failed harness natively: generate the concrete-playback unit test in a scratch copy of the crate and run it
    as an ordinary test (dev profile). -> dict(reproduced: bool|None, detail)"""
    import shutil, tempfile
    work = os.path.join(VERIF, ".work", "kani-playback")
    shutil.rmtree(work, ignore_errors=True)
    shutil.copytree(KDIR, work, ignore=shutil.ignore_patterns("target"))
    env = dict(os.environ, CARGO_NET_OFFLINE="true", RUSTFLAGS="--cfg qrlew_verif")
    tdir = paths.target("kani")
    p = subprocess.run("timeout %d cargo kani --target-dir %s --harness %s -Z concrete-playback --concrete-playback=inplace" % (timeout_s, tdir, h),
                       shell=True, cwd=work, env=env, stdout=subprocess.PIPE, stderr=subprocess.STDOUT, text=True)
    src = open(os.path.join(work, "src", "lib.rs")).read()
    if "kani_concrete_playback" not in src:
        return dict(reproduced=None, detail="no playback test generated: " + p.stdout[-300:])
    q = subprocess.run("timeout %d cargo kani playback -Z concrete-playback -- kani_concrete_playback" % timeout_s, shell=True, cwd=work, env=env,
                       stdout=subprocess.PIPE, stderr=subprocess.STDOUT, text=True)
    out = q.stdout
    failed = re.findall(r"test (\S+) \.\.\. FAILED", out)
    passed = re.findall(r"test (\S+) \.\.\. ok", out)
    panics = re.findall(r"panicked at ([^\n]+)\n([^\n]*)", out)
    shutil.rmtree(os.path.join(work, "target"), ignore_errors=True)
    if failed:
        return dict(reproduced=True, detail="native replay fails: %s" % "; ".join("%s: %s" % (a, b) for a, b in panics[:3]), tests_failed=failed)
    if passed:
        return dict(reproduced=False, detail="native replay of the counterexample passes (%d tests)" % len(passed))
    return dict(reproduced=None, detail="playback did not run: " + out[-300:])
