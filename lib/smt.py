"""Solver pool: long-lived SMT solver processes, push/pop per query, portfolio, model parsing.

A query is a dict:
  id      : str
  script  : str   SMT-LIB2 declarations + assertions (no set-logic, no check-sat)
  values  : list of terms (strings) whose model value is wanted when sat
  solvers : optional list of solver names in preference order
Result dict: id, status in {sat, unsat, unknown, error}, model {term: python value}, solver, time_s, raw
"""
import os, subprocess, threading, time, re, struct, fractions, select, signal, json, sys
from concurrent.futures import ThreadPoolExecutor

SOLVER_CMDS = {
    "cvc5": ["cvc5", "--lang=smt2", "--incremental", "--produce-models"],
    "z3new": ["z3-new", "-in", "-smt2"],
    "z3": ["/usr/bin/z3", "-in", "-smt2"],
}
DEFAULT_ORDER = ["cvc5", "z3new", "z3"]

# --------------------------------------------------------------------------- s-expressions

_tok = re.compile(r'\s*(\(|\)|"(?:[^"]|"")*"|\|[^|]*\||[^\s()]+)')


def parse_sexprs(text):
    """Parse a string into a list of s-expressions (nested python lists of str)."""
    out, stack = [], []
    pos = 0
    n = len(text)
    while True:
        m = _tok.match(text, pos)
        if not m:
            break
        pos = m.end()
        t = m.group(1)
        if t == "(":
            stack.append([])
        elif t == ")":
            if not stack:
                raise ValueError("unbalanced )")
            x = stack.pop()
            (stack[-1] if stack else out).append(x)
        else:
            (stack[-1] if stack else out).append(t)
        if pos >= n:
            break
    if stack:
        raise ValueError("unbalanced (")
    return out


def sexpr_str(e):
    if isinstance(e, list):
        return "(" + " ".join(sexpr_str(x) for x in e) + ")"
    return e


class FP:
    """An IEEE double given by its 64 bit pattern."""
    __slots__ = ("bits",)

    def __init__(self, bits):
        self.bits = bits & 0xFFFFFFFFFFFFFFFF

    @staticmethod
    def from_float(x):
        return FP(struct.unpack("<Q", struct.pack("<d", x))[0])

    def to_float(self):
        return struct.unpack("<d", struct.pack("<Q", self.bits))[0]

    def __repr__(self):
        return "FP(%r)" % self.to_float()

    def __eq__(self, o):
        return isinstance(o, FP) and o.bits == self.bits

    def __hash__(self):
        return hash(self.bits)


def value_of(e):
    """Convert a model value s-expression to python: bool, int (Int or BitVec as unsigned), Fraction, FP."""
    if isinstance(e, str):
        if e == "true":
            return True
        if e == "false":
            return False
        if e.startswith("#x"):
            return ("bv", int(e[2:], 16), 4 * (len(e) - 2))
        if e.startswith("#b"):
            return ("bv", int(e[2:], 2), len(e) - 2)
        if re.fullmatch(r"-?\d+", e):
            return int(e)
        if re.fullmatch(r"-?\d+\.\d*", e):
            return fractions.Fraction(e.rstrip("?"))
        if re.fullmatch(r"-?\d+\.\d*\?", e):
            return fractions.Fraction(e.rstrip("?"))
        return e
    if not e:
        return e
    h = e[0]
    if h == "-" and len(e) == 2:
        v = value_of(e[1])
        return -v
    if h == "/" and len(e) == 3:
        a, b = value_of(e[1]), value_of(e[2])
        return fractions.Fraction(a) / fractions.Fraction(b)
    if h == "fp" and len(e) == 4:
        s, ex, m = (value_of(x) for x in e[1:])
        bits = (s[1] << 63) | (ex[1] << 52) | m[1]
        return FP(bits)
    if h == "_" and len(e) >= 2:
        k = e[1]
        if k == "+zero":
            return FP(0)
        if k == "-zero":
            return FP(1 << 63)
        if k == "+oo":
            return FP(0x7FF0000000000000)
        if k == "-oo":
            return FP(0xFFF0000000000000)
        if k == "NaN":
            return FP(0x7FF8000000000000)
        if k.startswith("bv"):
            return ("bv", int(k[2:]), int(e[2]))
    if h == "root-obj" or h == "witness":
        return ("algebraic", sexpr_str(e))
    return ("sexpr", sexpr_str(e))


def bv_signed(v):
    """('bv', u, w) -> signed int"""
    _, u, w = v
    return u - (1 << w) if u >> (w - 1) else u


# --------------------------------------------------------------------------- solver process


class SolverProc:
    def __init__(self, name, mem_mb=4096):
        self.name = name
        self.mem_mb = mem_mb
        self.p = None
        self.nq = 0
        self.start()

    def start(self):
        cmd = SOLVER_CMDS[self.name]
        pre = "ulimit -v %d; exec " % (self.mem_mb * 1024)
        self.p = subprocess.Popen(
            ["bash", "-c", pre + " ".join(cmd)],
            stdin=subprocess.PIPE, stdout=subprocess.PIPE, stderr=subprocess.STDOUT,
            start_new_session=True)
        self.rbuf = b""
        self._send("(set-option :print-success false)")
        self._send("(set-option :produce-models true)")
        self._send("(set-logic ALL)")
        self.sync()

    def kill(self):
        if self.p and self.p.poll() is None:
            try:
                os.killpg(self.p.pid, signal.SIGKILL)
            except Exception:
                pass
            try:
                self.p.wait(timeout=5)
            except Exception:
                pass
        self.p = None

    def _send(self, s):
        self.p.stdin.write((s + "\n").encode())
        self.p.stdin.flush()

    def _read_until(self, marker, deadline):
        """Read lines until one equals marker. Returns list of lines before it or None on timeout/death."""
        lines = []
        fd = self.p.stdout.fileno()
        while True:
            while b"\n" in self.rbuf:
                line, self.rbuf = self.rbuf.split(b"\n", 1)
                line = line.decode("utf-8", "replace").rstrip("\r")
                if line.strip().strip('"') == marker:
                    return lines
                lines.append(line)
            rem = deadline - time.time()
            if rem <= 0:
                return None
            r, _, _ = select.select([fd], [], [], min(rem, 1.0))
            if not r:
                if self.p.poll() is not None:
                    return None
                continue
            chunk = os.read(fd, 65536)
            if not chunk:
                return None
            self.rbuf += chunk

    def sync(self, timeout=20):
        self._send('(echo "@@sync@@")')
        return self._read_until("@@sync@@", time.time() + timeout)

    def query(self, script, values=(), timeout_s=10.0):
        t0 = time.time()
        try:
            return self._query(script, values, timeout_s)
        except (BrokenPipeError, OSError, ValueError, AttributeError) as ex:  # killed under us (race) or died
            self.kill()
            return "unknown", {}, ["solver process lost: %r" % (ex,)], time.time() - t0

    def _query(self, script, values=(), timeout_s=10.0):
        """Returns (status, model_dict, raw_lines, secs)."""
        if self.p is None or self.p.poll() is not None:
            self.kill()
            self.start()
        t0 = time.time()
        ms = int(timeout_s * 1000)
        buf = ["(push 1)"]
        if self.name.startswith("z3"):
            buf.append("(set-option :timeout %d)" % ms)
        else:
            buf.append("(set-option :tlimit-per %d)" % ms)
        buf.append(script)
        buf.append("(check-sat)")
        buf.append('(echo "@@cs@@")')
        try:
            self._send("\n".join(buf))
        except BrokenPipeError:
            self.kill()
            return "error", {}, ["broken pipe"], time.time() - t0
        lines = self._read_until("@@cs@@", time.time() + timeout_s + 5)
        if lines is None:
            self.kill()
            return "unknown", {}, ["timeout/killed"], time.time() - t0
        lines = [l.replace('"@@cs@@"', "").strip() for l in lines]
        lines = [l for l in lines if l]
        status = "unknown"
        err = [l for l in lines if l.startswith("(error")]
        for l in lines:
            if l in ("sat", "unsat", "unknown"):
                status = l
        if err:
            status = "error"
        model = {}
        raw = list(lines)
        if status == "sat" and values:
            self._send("(get-value (%s))" % " ".join(values))
            self._send('(echo "@@gv@@")')
            ml = self._read_until("@@gv@@", time.time() + 30)
            if ml is None:
                self.kill()
                return "error", {}, raw + ["get-value failed"], time.time() - t0
            txt = "\n".join(ml)
            if "(error" in txt:
                status = "error"
                raw.append(txt)
            else:
                try:
                    sx = parse_sexprs(txt)
                    pairs = sx[0] if sx else []
                    for (k, v), name in zip(pairs, values):
                        model[name] = value_of(v)
                except Exception as ex:  # malformed model
                    status = "error"
                    raw.append("model parse: %r %s" % (ex, txt[:500]))
        try:
            self._send("(pop 1)")
        except BrokenPipeError:
            self.kill()
        self.nq += 1
        if self.nq % 2000 == 0:  # keep memory bounded
            self.kill()
        return status, model, raw, time.time() - t0


class Pool:
    """A set of solver processes belonging to one worker; sequential or racing portfolio."""

    def __init__(self, order=None, mem_mb=4096):
        self.order = order or DEFAULT_ORDER
        self.procs = {}
        self.mem_mb = mem_mb
        self.stats = {}

    def proc(self, name):
        if name not in self.procs:
            self.procs[name] = SolverProc(name, self.mem_mb)
        return self.procs[name]

    def close(self):
        for p in self.procs.values():
            p.kill()
        self.procs = {}

    def solve(self, q, timeout_s=10.0, race=False):
        order = q.get("solvers") or self.order
        res = None
        if race and len(order) > 1:
            res = self._race(q, order, timeout_s)
        else:
            tried = []
            for name in order:
                st, model, raw, secs = self.proc(name).query(q["script"], q.get("values", ()), timeout_s)
                tried.append((name, st, round(secs, 3)))
                if st in ("sat", "unsat"):
                    res = dict(id=q["id"], status=st, model=model, solver=name, time_s=secs, tried=tried)
                    break
                last = (st, raw)
            if res is None:
                res = dict(id=q["id"], status="unknown", model={}, solver=None,
                           time_s=sum(t[2] for t in tried), tried=tried, raw=last[1][:5])
        s = self.stats.setdefault(res.get("solver") or "none", dict(n=0, time_s=0.0))
        s["n"] += 1
        s["time_s"] += res["time_s"]
        return res

    def _race(self, q, order, timeout_s):
        results = {}
        done = threading.Event()
        lock = threading.Lock()

        def run(name):
            st, model, raw, secs = self.proc(name).query(q["script"], q.get("values", ()), timeout_s)
            with lock:
                results[name] = (st, model, raw, secs)
                if st in ("sat", "unsat"):
                    done.set()
                if len(results) == len(order):
                    done.set()

        for n in order:
            self.proc(n)
        ths = [threading.Thread(target=run, args=(n,), daemon=True) for n in order]
        t0 = time.time()
        for t in ths:
            t.start()
        done.wait(timeout_s + 10)
        with lock:
            win = [(n, r) for n, r in results.items() if r[0] in ("sat", "unsat")]
        # stop the others
        for n in order:
            if n not in results:
                self.procs[n].kill()
        for t in ths:
            t.join(timeout=10)
        tried = [(n, r[0], round(r[3], 3)) for n, r in results.items()]
        if win:
            n, (st, model, raw, secs) = win[0]
            return dict(id=q["id"], status=st, model=model, solver=n, time_s=time.time() - t0, tried=tried)
        return dict(id=q["id"], status="unknown", model={}, solver=None, time_s=time.time() - t0, tried=tried)


# --------------------------------------------------------------------------- parallel driver

_worker_pool = None


def _worker_init(order, mem_mb):
    global _worker_pool
    _worker_pool = Pool(order, mem_mb)
    import atexit
    atexit.register(_worker_pool.close)


def _worker_solve(args):
    q, timeout_s, race = args
    try:
        r = _worker_pool.solve(q, timeout_s, race)
    except Exception as ex:
        r = dict(id=q["id"], status="error", model={}, solver=None, time_s=0.0, raw=[repr(ex)])
    r["_stats"] = None
    return r


def solve_all(queries, timeout_s=10.0, workers=8, order=None, race=False, mem_mb=4096, progress=None):
    """Solve many queries in parallel worker processes, each with its own long-lived solvers."""
    import multiprocessing as mp
    if not queries:
        return []
    workers = max(1, min(workers, len(queries)))
    ctx = mp.get_context("fork")
    with ctx.Pool(workers, initializer=_worker_init, initargs=(order, mem_mb)) as pool:
        out = []
        chunk = 1 if len(queries) < workers * 8 else 4
        for i, r in enumerate(pool.imap(_worker_solve, [(q, timeout_s, race) for q in queries], chunksize=chunk)):
            out.append(r)
            if progress and (i + 1) % progress == 0:
                print("  .. %d/%d queries" % (i + 1, len(queries)), file=sys.stderr, flush=True)
        return out


def replayable_models(queries, results, timeout_s=10.0, workers=8, order=None, denom=1 << 20):
    """For sat results of Real-valued (math mode) queries: ask again with every declared Real constant among the query's
    `values` restricted to multiples of 1/denom, so that the model is exactly representable as an f64 and a concrete replay
    (SQLite, the real code) sees the same comparisons the solver saw (a model value of 1 - 1e-30 becomes 1.0 as a float and
    flips `x < 1`). The verdict is untouched: only the model of an already satisfiable query is replaced when the restricted
    query is satisfiable too; otherwise the original model is kept."""
    byid = {q["id"]: q for q in queries}
    again = []
    for r in results:
        if r["status"] != "sat" or r["id"] not in byid:
            continue
        q = byid[r["id"]]
        reals = [n for n in re.findall(r"\(declare-const (\S+) Real\)", q["script"]) if n in set(q.get("values") or [])]
        if not reals:
            continue
        extra = "\n".join("(assert (= (* %d.0 %s) (to_real (to_int (* %d.0 %s)))))" % (denom, n, denom, n) for n in reals)
        again.append(dict(q, id=q["id"] + "#dyadic", script=q["script"] + "\n" + extra))
    if not again:
        return results
    res2 = {r["id"][:-7]: r for r in solve_all(again, timeout_s, workers=workers, order=order)}
    out = []
    for r in results:
        r2 = res2.get(r["id"])
        if r2 is not None and r2["status"] == "sat":
            r = dict(r, model=r2["model"], dyadic_model=True)
        out.append(r)
    return out


def summarize(results):
    s = dict(total=len(results), sat=0, unsat=0, unknown=0, error=0, solver_time_s=0.0, by_solver={})
    for r in results:
        s[r["status"]] = s.get(r["status"], 0) + 1
        s["solver_time_s"] += r.get("time_s", 0.0)
        b = s["by_solver"].setdefault(r.get("solver") or "none", 0)
        s["by_solver"][r.get("solver") or "none"] = b + 1
    s["solver_time_s"] = round(s["solver_time_s"], 3)
    return s


# --------------------------------------------------------------------------- term helpers


def bv64(v):
    return "#x%016x" % (v & 0xFFFFFFFFFFFFFFFF)


def int_lit(v):
    return str(v) if v >= 0 else "(- %d)" % (-v)


def real_lit(fr):
    fr = fractions.Fraction(fr)
    n, d = fr.numerator, fr.denominator
    s = "%d.0" % abs(n) if d == 1 else "(/ %d.0 %d.0)" % (abs(n), d)
    return s if n >= 0 else "(- %s)" % s


def fp_lit(x):
    """python float (or FP) -> Float64 literal"""
    bits = x.bits if isinstance(x, FP) else FP.from_float(x).bits
    return "(fp #b%d #b%s #b%s)" % (bits >> 63, format((bits >> 52) & 0x7FF, "011b"), format(bits & ((1 << 52) - 1), "052b"))


def land(xs):
    xs = [x for x in xs if x != "true"]
    if any(x == "false" for x in xs):
        return "false"
    if not xs:
        return "true"
    return xs[0] if len(xs) == 1 else "(and %s)" % " ".join(xs)


def lor(xs):
    xs = [x for x in xs if x != "false"]
    if any(x == "true" for x in xs):
        return "true"
    if not xs:
        return "false"
    return xs[0] if len(xs) == 1 else "(or %s)" % " ".join(xs)


def lnot(x):
    if x == "true":
        return "false"
    if x == "false":
        return "true"
    return "(not %s)" % x


def ite(c, a, b):
    if c == "true":
        return a
    if c == "false":
        return b
    if a == b:
        return a
    return "(ite %s %s %s)" % (c, a, b)


if __name__ == "__main__":
    qs = [dict(id="t%d" % i, script="(declare-const x (_ BitVec 64))(assert (= (bvadd x x) #x%016x))" % (i * i), values=["x"]) for i in range(1, 20)]
    rs = solve_all(qs, 10, 4)
    print(summarize(rs))
    print([r for r in rs if r["status"]=="unknown"])
    print(rs[3])
    p = Pool()
    print(p.solve(dict(id="f", script="(declare-const f (_ FloatingPoint 11 53))(assert (fp.isNaN f))", values=["f"])))
    print(p.solve(dict(id="r", script="(declare-const r Real)(assert (= (* r 3.0) 1.0))", values=["r"]), race=True))
    p.close()
