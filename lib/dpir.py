"""Pattern helpers over the DP-rewritten Relation IR (driver JSON): noise-adding projections, their sigma and pre-noise
term, neutralisation of the Box-Muller term, threshold filters. Patterns are structural (functions and literals), never
name based."""
import copy, json
import driver, symrel


def has_fn(e, name):
    if isinstance(e, dict):
        if e.get("e") == "Function" and e.get("f") == name:
            return True
        return any(has_fn(v, name) for v in e.values())
    if isinstance(e, list):
        return any(has_fn(v, name) for v in e)
    return False


def lit_float(e):
    if e.get("e") == "Value" and e["v"]["t"] in ("Float", "Integer"):
        v = e["v"]
        return driver.bits_f64(v["v"]) if v["t"] == "Float" else float(int(v["v"]))
    return None


def find_noise_term(e):
    """locate Plus(X, Multiply(sigma, N)) with Random inside N -> (X, sigma, path) or None"""
    if not isinstance(e, dict) or e.get("e") != "Function":
        return None
    if e["f"] == "Plus" and len(e["args"]) == 2:
        x, y = e["args"]
        for a, b in ((x, y), (y, x)):
            if b.get("e") == "Function" and b["f"] == "Multiply" and len(b["args"]) == 2:
                for s, n in ((b["args"][0], b["args"][1]), (b["args"][1], b["args"][0])):
                    sig = lit_float(s)
                    if sig is not None and has_fn(n, "Random") and not has_fn(a, "Random"):
                        return a, sig
    for a in e["args"]:
        r = find_noise_term(a)
        if r:
            return r
    return None


def noise_maps(rel):
    """[(map node, [(column, X expr, sigma)])] for every Map that adds Gaussian noise"""
    out = []
    seen = set()
    for n in symrel.inner_nodes(rel):
        if n["k"] != "Map" or n["name"] in seen:
            continue
        seen.add(n["name"])
        cols = []
        for name, e in n["projection"]:
            if has_fn(e, "Random"):
                r = find_noise_term(e)
                cols.append((name, r[0] if r else None, r[1] if r else None, e))
        if cols:
            out.append((n, cols))
    return out


def neutralise(e):
    """copy of expression with every Multiply(sigma, <..Random..>) replaced by 0.0 (noise draw = 0)"""
    if isinstance(e, list):
        return [neutralise(x) for x in e]
    if not isinstance(e, dict):
        return e
    if e.get("e") == "Function" and e["f"] == "Multiply" and has_fn(e, "Random"):
        lits = [a for a in e["args"] if lit_float(a) is not None]
        if lits:
            return {"e": "Value", "v": driver.v_float(0.0)}
    return {k: neutralise(v) for k, v in e.items()}


def neutralise_relation(rel):
    r = copy.deepcopy(rel)

    def rec(n):
        if n["k"] == "Map":
            n["projection"] = [[name, neutralise(e)] for name, e in n["projection"]]
            if n.get("filter") is not None:
                n["filter"] = neutralise(n["filter"])
        for k in ("input", "left", "right"):
            if k in n:
                rec(n[k])

    rec(r)
    return r


def gaussian_multipliers(ev):
    out = []
    if ev["k"] == "Gaussian":
        out.append(ev["noise_multiplier"])
    for e in ev.get("events", []):
        out += gaussian_multipliers(e)
    return out


def epsilon_deltas(ev):
    out = []
    if ev["k"] == "EpsilonDelta":
        out.append((ev["epsilon"], ev["delta"]))
    for e in ev.get("events", []):
        out += epsilon_deltas(e)
    return out


def threshold_filters(rel):
    """[(map node, column path, threshold literal)] for filters of the form  col > tau  /  tau < col  on a noised count"""
    out = []
    seen = set()
    for n in symrel.inner_nodes(rel):
        if n["k"] != "Map" or n.get("filter") is None or n["name"] in seen:
            continue
        seen.add(n["name"])

        def scan(e):
            if e.get("e") != "Function":
                return
            if e["f"] in ("Gt", "GtEq", "Lt", "LtEq") and len(e["args"]) == 2:
                a, b = e["args"]
                if a.get("e") == "Column" and lit_float(b) is not None:
                    out.append((n, a["path"], e["f"], lit_float(b)))
                elif b.get("e") == "Column" and lit_float(a) is not None:
                    out.append((n, b["path"], {"Gt": "Lt", "Lt": "Gt", "GtEq": "LtEq", "LtEq": "GtEq"}[e["f"]], lit_float(a)))
            for x in e["args"]:
                scan(x)

        scan(n["filter"])
    return out


def declamp(e):
    """copy of an expression with every  Least(hi, Greatest(lo, P))  /  Greatest(lo, Least(hi, P))  around a noised term P replaced by P"""
    if isinstance(e, list):
        return [declamp(x) for x in e]
    if not isinstance(e, dict):
        return e
    if e.get("e") == "Function" and e["f"] in ("Least", "Greatest") and len(e["args"]) == 2:
        for lit, inner in ((e["args"][0], e["args"][1]), (e["args"][1], e["args"][0])):
            other = "Greatest" if e["f"] == "Least" else "Least"
            if lit_float(lit) is not None and inner.get("e") == "Function" and inner["f"] == other and len(inner["args"]) == 2 and has_fn(inner, "Random"):
                for lit2, p in ((inner["args"][0], inner["args"][1]), (inner["args"][1], inner["args"][0])):
                    if lit_float(lit2) is not None and has_fn(p, "Random"):
                        return declamp(p)
    return {k: declamp(v) for k, v in e.items()}


def declamp_relation(rel):
    """the relation with the clamps around noised terms removed; nodes that change (and their ancestors) get the suffix _nc so
    that both variants can share one evaluation memo"""
    def rec(n):
        m = dict(n)
        changed = False
        for k in ("input", "left", "right"):
            if k in n:
                m[k], ch = rec(n[k])
                changed = changed or ch
        if n["k"] == "Map":
            proj = [[name, declamp(e)] for name, e in n["projection"]]
            if json.dumps(proj, sort_keys=True) != json.dumps(n["projection"], sort_keys=True):
                m["projection"] = proj
                changed = True
        if changed:
            m["name"] = n["name"] + "_nc"
        return m, changed
    out, ch = rec(rel)
    return out, ch
