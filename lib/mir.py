"""Engine M: parse rustc's textual MIR (-Zunpretty=mir) and translate loop-free bodies to SMT-LIB terms.

The translation is a symbolic execution of the acyclic control-flow graph: every path is followed, the
results are merged with ite, assert terminators / panicking callees contribute to a *panic condition*.
Anything outside the accepted subset raises NotTranslatable(reason) -- it is never approximated.

Sort modes:
  'bv'   : integers as bit-vectors of their width, f64 as Float64     (machine-exact)
  'math' : integers as Int with explicit range side conditions, f64 as Real (rounding abstracted away, stated)
"""
import os, re, subprocess, sys, time, hashlib
from smt import land, lor, lnot, ite, fp_lit, bv64, int_lit

import paths
VERIF = paths.VERIF
WORK = paths.WORK


class NotTranslatable(Exception):
    pass


# --------------------------------------------------------------------------------------- dump


def dump_mir(repo=None, force=False):
    """Dump the MIR of /repo's current working tree (scratch copy, nightly). Returns (path, seconds)."""
    repo = repo or paths.REPO
    t0 = time.time()
    os.makedirs(WORK, exist_ok=True)
    src = os.path.join(WORK, "mirsrc")
    out = os.path.join(WORK, "qrlew.mir")
    subprocess.run(["rsync", "-a", "--delete", "--exclude", "target", "--exclude", ".git", repo + "/", src + "/"], check=True)
    # content hash of sources: skip the dump when unchanged
    h = hashlib.sha256()
    for root, _, files in sorted(os.walk(os.path.join(src, "src"))):
        for f in sorted(files):
            p = os.path.join(root, f)
            h.update(p.encode())
            h.update(open(p, "rb").read())
    h.update(open(os.path.join(src, "Cargo.toml"), "rb").read())
    stamp = os.path.join(WORK, "qrlew.mir.sha")
    if not force and os.path.exists(out) and os.path.exists(stamp) and open(stamp).read() == h.hexdigest():
        return out, time.time() - t0
    os.utime(os.path.join(src, "src", "lib.rs"))
    env = dict(os.environ)
    env["CARGO_NET_OFFLINE"] = "true"
    env.pop("RUSTFLAGS", None)
    with open(out + ".tmp", "w") as fo, open(os.path.join(WORK, "mir.err"), "w") as fe:
        p = subprocess.run(["cargo", "+nightly", "rustc", "--offline", "--lib", "--target-dir", paths.target("mir"),
                            "--", "-Zunpretty=mir", "-C", "debug-assertions=off", "-C", "overflow-checks=on"],
                           cwd=src, env=env, stdout=fo, stderr=fe)
    if p.returncode != 0 or os.path.getsize(out + ".tmp") < 1000:
        sys.stderr.write(open(os.path.join(WORK, "mir.err")).read()[-4000:])
        raise SystemExit("BUILD-FAILED: MIR dump of /repo failed (exit 2)")
    os.replace(out + ".tmp", out)
    open(stamp, "w").write(h.hexdigest())
    return out, time.time() - t0


# --------------------------------------------------------------------------------------- parsing


def split_top(s, sep=","):
    """split on sep at nesting depth 0 of () <> [] {} (ignoring '->' arrows)"""
    out, depth, cur = [], 0, []
    i = 0
    while i < len(s):
        c = s[i]
        if c in "(<[{":
            depth += 1
        elif c in ")]}":
            depth -= 1
        elif c == ">" and not (i > 0 and s[i - 1] in "-="):
            depth -= 1
        if c == sep and depth == 0:
            out.append("".join(cur).strip())
            cur = []
        else:
            cur.append(c)
        i += 1
    if "".join(cur).strip():
        out.append("".join(cur).strip())
    return out


class Fn:
    def __init__(self, name, args, ret, header):
        self.name, self.args, self.ret, self.header = name, args, ret, header
        self.locals = {}
        self.blocks = {}
        self.cleanup = set()
        self.span = None
        self.text = []

    def __repr__(self):
        return "<Fn %s>" % self.name


_fn_re = re.compile(r"^fn (.+?)\((.*)\) -> (.+) \{$")
_fn0_re = re.compile(r"^fn (.+?)\((.*)\) \{$")


def parse_mir(path):
    """-> dict name -> Fn (names can repeat for generic impls: later definitions get a #k suffix)"""
    fns = {}
    cur = None
    bb = None
    with open(path) as f:
        for raw in f:
            line = raw.rstrip("\n")
            if cur is None:
                if line.startswith("fn "):
                    m = _fn_re.match(line) or _fn0_re.match(line)
                    if not m:
                        continue
                    name = m.group(1)
                    ret = m.group(3) if m.re is _fn_re else "()"
                    args = []
                    for a in split_top(m.group(2)):
                        if ": " in a:
                            n, t = a.split(": ", 1)
                            args.append((n.strip(), t.strip()))
                    cur = Fn(name, args, ret, line)
                    k = name
                    i = 1
                    while k in fns:
                        i += 1
                        k = "%s#%d" % (name, i)
                    fns[k] = cur
                    for n, t in args:
                        cur.locals[n] = t
                continue
            if line == "}":
                cur = None
                bb = None
                continue
            cur.text.append(line)
            s = line.strip()
            if not s or s.startswith("//"):
                continue
            m = re.match(r"^let (?:mut )?(_\d+): (.+);$", s)
            if m:
                cur.locals[m.group(1)] = m.group(2)
                continue
            m = re.match(r"^(bb\d+)( \(cleanup\))?: \{$", s)
            if m:
                bb = m.group(1)
                cur.blocks[bb] = []
                if m.group(2):
                    cur.cleanup.add(bb)
                continue
            if s == "}":
                bb = None if bb else bb
                continue
            if s.startswith("debug ") or s.startswith("scope "):
                continue
            if bb is not None:
                cur.blocks[bb].append(s)
    return fns


def closure_span(fn):
    """source position 'file:line:col' of a closure body function, from the type of its first argument"""
    if fn.args:
        m = re.search(r"\{closure@([^:]+):(\d+):(\d+)", fn.args[0][1])
        if m:
            return m.group(1), int(m.group(2)), int(m.group(3))
    return None


# --------------------------------------------------------------------------------------- values

INT_W = {"i8": 8, "i16": 16, "i32": 32, "i64": 64, "i128": 128, "isize": 64,
         "u8": 8, "u16": 16, "u32": 32, "u64": 64, "u128": 128, "usize": 64}


def is_signed(t):
    return t[0] == "i"


class V:
    """scalar value: ty in INT_W | 'f64' | 'bool' | 'unit'"""
    __slots__ = ("ty", "t")

    def __init__(self, ty, t):
        self.ty, self.t = ty, t

    def __repr__(self):
        return "V(%s,%s)" % (self.ty, self.t)


class Tup:
    __slots__ = ("items",)

    def __init__(self, items):
        self.items = list(items)

    def __repr__(self):
        return "Tup(%r)" % (self.items,)


class En:
    """enum value: disc = Int term; variants: dict idx -> list of field values (only constructed ones known)"""
    __slots__ = ("name", "disc", "variants")

    def __init__(self, name, disc, variants):
        self.name, self.disc, self.variants = name, disc, variants

    def __repr__(self):
        return "En(%s,%s,%r)" % (self.name, self.disc, self.variants)


class Seq:
    """a finite sequence (slice, Vec, map entries, iterator) of concrete length; items are (guard term, value)"""
    __slots__ = ("items",)

    def __init__(self, items):
        self.items = [(g, v) for g, v in items]

    @staticmethod
    def of(values):
        return Seq([("true", v) for v in values])

    def plain(self):
        return all(g == "true" for g, _ in self.items)

    def __repr__(self):
        return "Seq(%r)" % (self.items,)


class Clo:
    """a closure value: the source span that identifies its body function and the captured values (in order)"""
    __slots__ = ("span", "env")

    def __init__(self, span, env):
        self.span, self.env = span, env

    def __repr__(self):
        return "Clo(%s,%r)" % (self.span, self.env)


class Opaque:
    """a value we carry around but cannot inspect (closure environments, zero-sized things)"""
    __slots__ = ("what",)

    def __init__(self, what):
        self.what = what


ENUM_VARIANTS = {
    "Found": {"Zero": 0, "One": 1, "More": 2},
    "ControlFlow": {"Continue": 0, "Break": 1},
    "Option": {"None": 0, "Some": 1},
    "Result": {"Ok": 0, "Err": 1},
    "Ordering": {"Less": -1, "Equal": 0, "Greater": 1},
}


class AbsSet:
    """an interval set abstracted to its membership formula at the query point (engine M composition lemmas)"""
    __slots__ = ("mem",)

    def __init__(self, mem):
        self.mem = mem

    def __repr__(self):
        return "AbsSet(%s)" % self.mem


SET_MEM = [None]  # hook: function(value) -> membership term of a concrete Intervals value at the query point


class Bot:
    """value read on an infeasible path (payload of an enum variant that was never constructed): absorbs in merges"""

    def __repr__(self):
        return "Bot"


def merge(c, a, b):
    """ite over structured values"""
    if a is None or isinstance(a, Bot):
        return b
    if b is None or isinstance(b, Bot):
        return a
    if isinstance(a, V) and isinstance(b, V):
        if a.ty != b.ty:
            raise NotTranslatable("merge of %s and %s" % (a.ty, b.ty))
        return V(a.ty, ite(c, a.t, b.t))
    if isinstance(a, Tup) and isinstance(b, Tup) and len(a.items) == len(b.items):
        return Tup([merge(c, x, y) for x, y in zip(a.items, b.items)])
    if isinstance(a, En) and isinstance(b, En):
        vs = {}
        for k in set(a.variants) | set(b.variants):
            fa, fb = a.variants.get(k), b.variants.get(k)
            if fa is None:
                vs[k] = fb
            elif fb is None:
                vs[k] = fa
            else:
                vs[k] = [merge(c, x, y) for x, y in zip(fa, fb)]
        return En(a.name, ite(c, a.disc, b.disc), vs)
    if isinstance(a, Opaque) and isinstance(b, Opaque):
        return a
    if isinstance(a, AbsSet) or isinstance(b, AbsSet):
        ma = a.mem if isinstance(a, AbsSet) else SET_MEM[0](a)
        mb = b.mem if isinstance(b, AbsSet) else SET_MEM[0](b)
        return AbsSet(ite(c, ma, mb))
    if isinstance(a, Seq) and isinstance(b, Seq):
        if len(a.items) == len(b.items):
            return Seq([(ite(c, ga, gb), merge(c, va, vb)) for (ga, va), (gb, vb) in zip(a.items, b.items)])
        return Opaque("merged sequences of different lengths")
    if isinstance(a, Opaque) or isinstance(b, Opaque):
        return Opaque("merged with opaque")
    raise NotTranslatable("merge of %r and %r" % (a, b))


# --------------------------------------------------------------------------------------- encodings


class Enc:
    """operations of one sort mode"""

    def __init__(self, mode="bv"):
        assert mode in ("bv", "math")
        self.mode = mode
        self.fresh = 0
        self.decls = []      # extra declarations (fresh symbols, uninterpreted functions)
        self.side = []       # side constraints on fresh symbols (assumed)
        self.uf = set()

    # -- sorts
    def sort(self, ty):
        if ty == "bool":
            return "Bool"
        if ty == "str":
            return "Int"
        if ty == "f64":
            return "(_ FloatingPoint 11 53)" if self.mode == "bv" else "Real"
        if ty in INT_W:
            return "(_ BitVec %d)" % INT_W[ty] if self.mode == "bv" else "Int"
        raise NotTranslatable("sort of " + ty)

    def new(self, ty, hint="k"):
        self.fresh += 1
        n = "%s!%d" % (hint, self.fresh)
        self.decls.append("(declare-const %s %s)" % (n, self.sort(ty)))
        return n

    def declare_uf(self, name, arg_tys, ret_ty):
        if name not in self.uf:
            self.uf.add(name)
            self.decls.append("(declare-fun %s (%s) %s)" % (name, " ".join(self.sort(t) for t in arg_tys), self.sort(ret_ty)))

    # -- literals
    def int_const(self, ty, v):
        if self.mode == "bv":
            w = INT_W[ty]
            return "(_ bv%d %d)" % (v & ((1 << w) - 1), w)
        return int_lit(v)

    def f_const(self, x):
        if self.mode == "bv":
            return fp_lit(x)
        import fractions
        if x != x or x in (float("inf"), float("-inf")):
            raise NotTranslatable("non-finite float constant in math mode")
        from smt import real_lit
        return real_lit(fractions.Fraction(x))

    def irange(self, ty):
        w = INT_W[ty]
        return (-(1 << (w - 1)), (1 << (w - 1)) - 1) if is_signed(ty) else (0, (1 << w) - 1)

    def in_range(self, ty, t):
        lo, hi = self.irange(ty)
        return "(and (<= %s %s) (<= %s %s))" % (int_lit(lo), t, t, int_lit(hi))

    # -- integer ops; return (value term, panic term)
    def ibin(self, op, ty, a, b):
        s = is_signed(ty)
        if self.mode == "bv":
            w = INT_W[ty]
            zero = "(_ bv0 %d)" % w
            if op == "Add":
                return "(bvadd %s %s)" % (a, b), "false"
            if op == "Sub":
                return "(bvsub %s %s)" % (a, b), "false"
            if op == "Mul":
                return "(bvmul %s %s)" % (a, b), "false"
            if op in ("Div", "Rem"):
                f = {("Div", True): "bvsdiv", ("Div", False): "bvudiv", ("Rem", True): "bvsrem", ("Rem", False): "bvurem"}[(op, s)]
                p = "(= %s %s)" % (b, zero)
                if s:
                    mn = self.int_const(ty, -(1 << (w - 1)))
                    m1 = self.int_const(ty, -1)
                    p = "(or %s (and (= %s %s) (= %s %s)))" % (p, a, mn, b, m1)
                return "(%s %s %s)" % (f, a, b), p
            if op in ("BitAnd", "BitOr", "BitXor"):
                return "(%s %s %s)" % ({"BitAnd": "bvand", "BitOr": "bvor", "BitXor": "bvxor"}[op], a, b), "false"
            raise NotTranslatable("int op " + op)
        else:
            if op == "Add":
                return "(+ %s %s)" % (a, b), "false"
            if op == "Sub":
                return "(- %s %s)" % (a, b), "false"
            if op == "Mul":
                return "(* %s %s)" % (a, b), "false"
            if op in ("Div", "Rem"):
                # truncating division: fresh q, r with a = q*b + r, |r| < |b|, sign(r) = sign(a)
                q, r = self.new(ty, "q"), self.new(ty, "r")
                self.side.append("(=> (not (= %s 0)) (and (= %s (+ (* %s %s) %s)) (< (abs %s) (abs %s)) (=> (> %s 0) (>= %s 0)) (=> (< %s 0) (<= %s 0)) (=> (= %s 0) (= %s 0))))"
                                 % (b, a, q, b, r, r, b, a, r, a, r, a, r))
                lo, _ = self.irange(ty)
                p = "(= %s 0)" % b
                if s:
                    p = "(or %s (and (= %s %s) (= %s (- 1))))" % (p, a, int_lit(lo), b)
                return (q if op == "Div" else r), p
            raise NotTranslatable("int op %s in math mode" % op)

    @staticmethod
    def _lit(t):
        m = re.fullmatch(r"-?\d+", t)
        if m:
            return int(t)
        m = re.fullmatch(r"\(- (\d+)\)", t)
        if m:
            return -int(m.group(1))
        m = re.fullmatch(r"\(_ bv(\d+) (\d+)\)", t)
        if m:
            return ("bv", int(m.group(1)), int(m.group(2)))
        return None

    def icmp(self, op, ty, a, b):
        la, lb = self._lit(a), self._lit(b)
        if la is not None and lb is not None and ty != "bool":
            if isinstance(la, tuple):
                w = la[2]
                sg = lambda u: u - (1 << w) if (is_signed(ty) and u >> (w - 1)) else u
                la, lb = sg(la[1]), sg(lb[1])
            r = {"Eq": la == lb, "Ne": la != lb, "Lt": la < lb, "Le": la <= lb, "Gt": la > lb, "Ge": la >= lb}[op]
            return "true" if r else "false"
        if ty == "bool":
            if op == "Eq":
                return "(= %s %s)" % (a, b)
            if op == "Ne":
                return "(not (= %s %s))" % (a, b)
            # false < true
            return {"Lt": "(and (not %s) %s)", "Le": "(or (not %s) %s)", "Gt": "(and %s (not %s))", "Ge": "(or %s (not %s))"}[op] % (a, b)
        if op == "Eq":
            return "(= %s %s)" % (a, b)
        if op == "Ne":
            return "(not (= %s %s))" % (a, b)
        if self.mode == "bv":
            s = is_signed(ty)
            f = {"Lt": "bvslt" if s else "bvult", "Le": "bvsle" if s else "bvule", "Gt": "bvsgt" if s else "bvugt", "Ge": "bvsge" if s else "bvuge"}[op]
        else:
            f = {"Lt": "<", "Le": "<=", "Gt": ">", "Ge": ">="}[op]
        return "(%s %s %s)" % (f, a, b)

    def iovf(self, op, ty, a, b):
        """value (wrapped) and overflow flag of a checked op"""
        if self.mode == "bv":
            w = INT_W[ty]
            v = "(%s %s %s)" % ({"Add": "bvadd", "Sub": "bvsub", "Mul": "bvmul"}[op], a, b)
            if is_signed(ty):
                ea, eb = "((_ sign_extend %d) %s)" % (w, a), "((_ sign_extend %d) %s)" % (w, b)
            else:
                ea, eb = "((_ zero_extend %d) %s)" % (w, a), "((_ zero_extend %d) %s)" % (w, b)
            wide = "(%s %s %s)" % ({"Add": "bvadd", "Sub": "bvsub", "Mul": "bvmul"}[op], ea, eb)
            if is_signed(ty):
                back = "((_ sign_extend %d) %s)" % (w, v)
            else:
                back = "((_ zero_extend %d) %s)" % (w, v)
            return v, "(not (= %s %s))" % (wide, back)
        exact = "(%s %s %s)" % ({"Add": "+", "Sub": "-", "Mul": "*"}[op], a, b)
        return exact, lnot(self.in_range(ty, exact))

    def sat(self, ty, exact_math):
        lo, hi = self.irange(ty)
        return "(ite (< %s %s) %s (ite (> %s %s) %s %s))" % (exact_math, int_lit(lo), int_lit(lo), exact_math, int_lit(hi), int_lit(hi), exact_math)

    def saturating(self, op, ty, a, b):
        if self.mode == "math":
            exact = "(%s %s %s)" % ({"add": "+", "sub": "-", "mul": "*"}[op], a, b)
            return self.sat(ty, exact)
        w = INT_W[ty]
        lo, hi = self.irange(ty)
        mn, mx = self.int_const(ty, lo), self.int_const(ty, hi)
        if op in ("add", "sub"):
            ea, eb = "((_ sign_extend 1) %s)" % a, "((_ sign_extend 1) %s)" % b
            wide = "(%s %s %s)" % ("bvadd" if op == "add" else "bvsub", ea, eb)
            emn, emx = "((_ sign_extend 1) %s)" % mn, "((_ sign_extend 1) %s)" % mx
            return "(ite (bvslt %s %s) %s (ite (bvsgt %s %s) %s ((_ extract %d 0) %s)))" % (wide, emn, mn, wide, emx, mx, w - 1, wide)
        ea, eb = "((_ sign_extend %d) %s)" % (w, a), "((_ sign_extend %d) %s)" % (w, b)
        wide = "(bvmul %s %s)" % (ea, eb)
        emn, emx = "((_ sign_extend %d) %s)" % (w, mn), "((_ sign_extend %d) %s)" % (w, mx)
        return "(ite (bvslt %s %s) %s (ite (bvsgt %s %s) %s ((_ extract %d 0) %s)))" % (wide, emn, mn, wide, emx, mx, w - 1, wide)

    # -- float ops
    def fbin(self, op, a, b):
        if self.mode == "bv":
            return "(%s RNE %s %s)" % ({"Add": "fp.add", "Sub": "fp.sub", "Mul": "fp.mul", "Div": "fp.div"}[op], a, b)
        return "(%s %s %s)" % ({"Add": "+", "Sub": "-", "Mul": "*", "Div": "/"}[op], a, b)

    def fcmp(self, op, a, b):
        if self.mode == "bv":
            if op == "Ne":
                return "(not (fp.eq %s %s))" % (a, b)
            return "(%s %s %s)" % ({"Eq": "fp.eq", "Lt": "fp.lt", "Le": "fp.leq", "Gt": "fp.gt", "Ge": "fp.geq"}[op], a, b)
        if op == "Ne":
            return "(not (= %s %s))" % (a, b)
        return "(%s %s %s)" % ({"Eq": "=", "Lt": "<", "Le": "<=", "Gt": ">", "Ge": ">="}[op], a, b)

    def int_to_float(self, ty, a):
        if self.mode == "bv":
            return "((_ to_fp 11 53) RNE %s)" % a if is_signed(ty) else "((_ to_fp_unsigned 11 53) RNE %s)" % a
        return "(to_real %s)" % a

    def float_to_int(self, ty, a):
        """Rust `as`: NaN -> 0, saturating, truncation toward zero"""
        lo, hi = self.irange(ty)
        if self.mode == "bv":
            w = INT_W[ty]
            flo, fhi = fp_lit(float(lo)), fp_lit(float(hi + 1))  # hi+1 = 2^(w-1) is exact
            conv = "((_ fp.to_sbv %d) RTZ %s)" % (w, a) if is_signed(ty) else "((_ fp.to_ubv %d) RTZ %s)" % (w, a)
            return "(ite (fp.isNaN %s) %s (ite (fp.leq %s %s) %s (ite (fp.geq %s %s) %s %s)))" % (
                a, self.int_const(ty, 0), a, flo, self.int_const(ty, lo), a, fhi, self.int_const(ty, hi), conv)
        tr = "(ite (>= %s 0.0) (to_int %s) (- (to_int (- %s))))" % (a, a, a)
        return self.sat(ty, tr)

    def fround(self, kind, a):
        if self.mode == "bv":
            rm = {"floor": "RTN", "ceil": "RTP", "trunc": "RTZ", "round": "RNA"}[kind]
            return "(fp.roundToIntegral %s %s)" % (rm, a)
        if kind == "floor":
            return "(to_real (to_int %s))" % a
        if kind == "ceil":
            return "(- (to_real (to_int (- %s))))" % a
        if kind == "trunc":
            return "(ite (>= %s 0.0) (to_real (to_int %s)) (- (to_real (to_int (- %s)))))" % (a, a, a)
        # round half away from zero
        return "(ite (>= %s 0.0) (to_real (to_int (+ %s 0.5))) (- (to_real (to_int (+ (- %s) 0.5)))))" % (a, a, a)


# --------------------------------------------------------------------------------------- translator


_IMPL_INDEX = {}


class Translator:
    def __init__(self, fns, enc, src_root=paths.REPO, inline_depth=4, stubs=None):
        self.stubs = stubs or []
        self.stub_syms = []
        self.stubs_used = []
        self.fns = fns
        self.enc = enc
        self.src_root = src_root
        self.inline_depth = inline_depth
        self.callees_used = set()
        self._impl_index = None

    def sym_of_type(self, ty, hint, syms=None):
        """fresh symbolic value of a (simple) Rust type; declared symbols are appended to syms as (name, ty)"""
        e = self.enc
        ty = ty.strip()
        while ty.startswith("&"):
            ty = ty[1:].strip()
            if ty.startswith("mut "):
                ty = ty[4:]
        if ty in INT_W or ty in ("f64", "bool"):
            n = e.new(ty, hint)
            if syms is not None:
                syms.append((n, ty))
            if e.mode == "math" and ty in INT_W:
                e.side.append(e.in_range(ty, n))
            return V(ty, n)
        m = re.fullmatch(r"(?:std|core)::option::Option<(.+)>", ty)
        if m:
            d = e.new("bool", hint + "_some")
            if syms is not None:
                syms.append((d, "bool"))
            inner = self.sym_of_type(m.group(1), hint + "_v", syms)
            return En("Option", "(ite %s 1 0)" % d, {0: [], 1: [inner]})
        m = re.fullmatch(r"\((.*)\)", ty)
        if m:
            return Tup([self.sym_of_type(t, "%s_%d" % (hint, i), syms) for i, t in enumerate(split_top(m.group(1)))])
        return Opaque(ty)

    # ---- operands / places
    def const(self, c, want_ty=None):
        c = c.strip()
        e = self.enc
        if c in ("true", "false"):
            return V("bool", c)
        m = re.fullmatch(r"(-?\d+)_(i8|i16|i32|i64|i128|isize|u8|u16|u32|u64|u128|usize)", c)
        if m:
            return V(m.group(2), e.int_const(m.group(2), int(m.group(1))))
        m = re.fullmatch(r"(?:core::num::<impl )?(i8|i16|i32|i64|isize|u8|u16|u32|u64|usize)(?:>)?::(MIN|MAX)", c)
        if m:
            lo, hi = e.irange(m.group(1))
            return V(m.group(1), e.int_const(m.group(1), lo if m.group(2) == "MIN" else hi))
        m = re.fullmatch(r"(-?[0-9.]+(?:[eE][-+]?\d+)?)f64", c)
        if m:
            return V("f64", e.f_const(float(m.group(1))))
        m = re.fullmatch(r"(?:core::f64::<impl f64>::|f64::|std::f64::)(MAX|MIN|INFINITY|NEG_INFINITY|NAN|EPSILON)", c)
        if m:
            val = {"MAX": 1.7976931348623157e308, "MIN": -1.7976931348623157e308, "INFINITY": float("inf"),
                   "NEG_INFINITY": float("-inf"), "NAN": float("nan"), "EPSILON": 2.220446049250313e-16}[m.group(1)]
            return V("f64", e.f_const(val))
        mc = re.search(r"\{closure@([^}]+)\}", c)
        if mc and (c.startswith("ZeroSized") or c.startswith("{closure")):
            return Clo(mc.group(1), Tup([]))
        if c.startswith("ZeroSized") or c == "()":
            return Opaque(c)
        m = re.fullmatch(r"(?:std|core)::option::Option::<.+>::None", c)
        if m:
            return En("Option", "0", {0: []})
        m = re.fullmatch(r"(?:std::f64::consts|core::f64::consts)::(PI|E)", c)
        if m:
            import math
            return V("f64", e.f_const(math.pi if m.group(1) == "PI" else math.e))
        raise NotTranslatable("constant %r" % c)

    def place(self, st, p):
        p = p.strip()
        m = re.fullmatch(r"_\d+", p)
        if m:
            if p not in st:
                raise NotTranslatable("read of unset local " + p)
            return st[p]
        m = re.fullmatch(r"\(\*(.+)\)", p)
        if m:
            return self.place(st, m.group(1))  # references are erased
        m = re.fullmatch(r"(.+)\[(\d+) of (\d+)\]", p)
        if m:
            b = self.place(st, m.group(1))
            if isinstance(b, Bot):
                return b
            if isinstance(b, Tup) and len(b.items) == int(m.group(3)):
                return b.items[int(m.group(2))]
            raise NotTranslatable("constant index on %r" % (b,))
        # field projection (BASE.k: T) possibly with downcast (BASE as Variant)
        if p.startswith("(") and p.endswith(")"):
            inner = p[1:-1]
            # find the last '.k: ' at depth 0
            depth = 0
            pos = -1
            for i, ch in enumerate(inner):
                if ch in "(<[{":
                    depth += 1
                elif ch in ")]}" or (ch == ">" and inner[i - 1] not in "-="):
                    depth -= 1
                elif ch == "." and depth == 0 and re.match(r"\.\d+: ", inner[i:]):
                    pos = i
            if pos >= 0:
                base = inner[:pos]
                k = int(re.match(r"\.(\d+): ", inner[pos:]).group(1))
                md = re.fullmatch(r"\((.+) as (\w+)\)", base.strip())
                if md:
                    b = self.place(st, md.group(1))
                    if not isinstance(b, En):
                        raise NotTranslatable("downcast of non-enum " + p)
                    idx = self.variant_index(b.name, md.group(2))
                    if idx not in b.variants or len(b.variants[idx]) <= k:
                        return Bot()  # only reachable when the discriminant test above it is infeasible
                    return b.variants[idx][k]
                b = self.place(st, base)
                if isinstance(b, Bot):
                    return b
                if isinstance(b, Tup):
                    return b.items[k]
                if isinstance(b, LazyEnv):
                    ty = re.match(r"\.\d+: (.+)$", inner[pos:]).group(1)
                    return b.field(k, ty, self)
                raise NotTranslatable("projection on %r" % (b,))
        raise NotTranslatable("place %r" % p)

    def variant_index(self, enum_name, variant):
        for k, vs in ENUM_VARIANTS.items():
            if k in enum_name and variant in vs:
                return vs[variant]
        raise NotTranslatable("enum variant %s::%s" % (enum_name, variant))

    def operand(self, st, o):
        o = o.strip()
        if o.startswith("no_retag "):
            o = o[9:]
        if o.startswith("copy "):
            return self.place(st, o[5:])
        if o.startswith("move "):
            return self.place(st, o[5:])
        if o.startswith("const "):
            return self.const(o[6:])
        raise NotTranslatable("operand %r" % o)

    def assign(self, st, place, val):
        place = place.strip()
        if re.fullmatch(r"_\d+", place):
            st[place] = val
            return
        # field assignment (_N.k: T) = v  on a tuple under construction
        m = re.fullmatch(r"\((_\d+)\.(\d+): .+\)", place)
        if m:
            base, k = m.group(1), int(m.group(2))
            cur = st.get(base)
            if cur is None:
                cur = Tup([])
            if not isinstance(cur, Tup):
                raise NotTranslatable("field assignment into %r" % cur)
            items = list(cur.items)
            while len(items) <= k:
                items.append(None)
            items[k] = val
            st[base] = Tup(items)
            return
        raise NotTranslatable("assignment to %r" % place)

    # ---- rvalues
    def rvalue(self, st, rv, fn, dest_ty=None):
        e = self.enc
        rv = rv.strip()
        if rv.startswith("no_retag "):
            rv = rv[9:]
        if rv.startswith(("copy ", "move ", "const ")):
            # could be a cast "copy _2 as f64 (IntToFloat)"
            m = re.fullmatch(r"((?:copy|move|const) .+?) as (\S+) \((\w+)(?:\(.*\))?\)", rv)
            if m:
                return self.cast(self.operand(st, m.group(1)), m.group(2), m.group(3))
            return self.operand(st, rv)
        m = re.fullmatch(r"(\w+)\((.*)\)", rv)
        if m and m.group(1) in ("Add", "Sub", "Mul", "Div", "Rem", "BitAnd", "BitOr", "BitXor", "Eq", "Ne", "Lt", "Le", "Gt", "Ge",
                                 "AddWithOverflow", "SubWithOverflow", "MulWithOverflow", "AddUnchecked", "SubUnchecked", "MulUnchecked", "Shl", "Shr", "Cmp"):
            op = m.group(1)
            a, b = [self.operand(st, x) for x in split_top(m.group(2))]
            return self.binop(op, a, b)
        if m and m.group(1) in ("Neg", "Not"):
            a = self.operand(st, m.group(2))
            if m.group(1) == "Not":
                if a.ty == "bool":
                    return V("bool", lnot(a.t))
                if e.mode == "bv":
                    return V(a.ty, "(bvnot %s)" % a.t)
                raise NotTranslatable("bitwise not in math mode")
            if a.ty == "f64":
                return V("f64", "(fp.neg %s)" % a.t if e.mode == "bv" else "(- %s)" % a.t)
            return V(a.ty, "(bvneg %s)" % a.t if e.mode == "bv" else "(- %s)" % a.t)
        if m and m.group(1) in ("PtrMetadata", "Len"):
            v = self.operand(st, m.group(2)) if m.group(2).startswith(("copy ", "move ")) else self.place(st, m.group(2))
            if isinstance(v, Seq) and v.plain():
                return V("usize", e.int_const("usize", len(v.items)))
            raise NotTranslatable("length of %r" % (v,))
        if m and m.group(1) == "discriminant":
            v = self.place(st, m.group(2))
            if isinstance(v, En):
                return V("isize", v.disc) if False else _Disc(v.disc)
            raise NotTranslatable("discriminant of %r" % (v,))
        if rv.startswith("&"):
            p = re.sub(r"^&(?:mut |raw const |raw mut )?", "", rv)
            return self.place(st, p)
        ms_ = re.fullmatch(r"([A-Za-z_][\w:]*(?:::<.*>)?) \{ (.*) \}", rv)
        if ms_ and not rv.startswith("{"):
            fields = []
            for part in split_top(ms_.group(2)):
                nm, op = part.split(": ", 1)
                fields.append(self.operand(st, op))
            return Tup(fields)   # struct literal: fields in declaration order
        mc = re.fullmatch(r"\{closure@([^}]+)\} \{ (.*) \}", rv)
        if mc:
            caps = []
            for part in split_top(mc.group(2)):
                nm, op = part.split(": ", 1)
                caps.append(self.operand(st, op))
            return Clo(mc.group(1), Tup(caps))
        if rv.startswith("(") and rv.endswith(")"):
            items = split_top(rv[1:-1])
            return Tup([self.operand(st, x) for x in items])
        # enum constructors: std::option::Option::<T>::Some(x) / ::None
        m = re.fullmatch(r"(.+?)::(\w+)(?:\((.*)\))?", rv)
        if m:
            path, variant, args = m.group(1), m.group(2), m.group(3)
            for k, vs in ENUM_VARIANTS.items():
                if re.search(r"\b%s\b" % k, path) and variant in vs:
                    fields = [self.operand(st, x) for x in split_top(args)] if args else []
                    return En(k, int_lit(vs[variant]), {vs[variant]: fields})
        raise NotTranslatable("rvalue %r" % rv)

    def cast(self, v, ty, kind):
        e = self.enc
        if isinstance(v, _Disc):
            raise NotTranslatable("cast of discriminant")
        if kind == "IntToFloat":
            return V("f64", e.int_to_float(v.ty, v.t))
        if kind == "FloatToInt":
            return V(ty, e.float_to_int(ty, v.t))
        if kind == "IntToInt":
            if v.ty == "bool":
                if e.mode == "bv":
                    return V(ty, "(ite %s %s %s)" % (v.t, e.int_const(ty, 1), e.int_const(ty, 0)))
                return V(ty, "(ite %s 1 0)" % v.t)
            if e.mode == "bv":
                ws, wd = INT_W[v.ty], INT_W[ty]
                if wd == ws:
                    return V(ty, v.t)
                if wd < ws:
                    return V(ty, "((_ extract %d 0) %s)" % (wd - 1, v.t))
                ext = "sign_extend" if is_signed(v.ty) else "zero_extend"
                return V(ty, "((_ %s %d) %s)" % (ext, wd - ws, v.t))
            # math mode: wrap into the target range
            lo, hi = e.irange(ty)
            slo, shi = e.irange(v.ty)
            if slo >= lo and shi <= hi:
                return V(ty, v.t)
            w = INT_W[ty]
            if is_signed(ty):
                return V(ty, "(- (mod (+ %s %d) %d) %d)" % (v.t, 1 << (w - 1), 1 << w, 1 << (w - 1)))
            return V(ty, "(mod %s %d)" % (v.t, 1 << w))
        if kind == "FloatToFloat" and ty == "f64":
            return v
        raise NotTranslatable("cast kind %s to %s" % (kind, ty))

    def binop(self, op, a, b):
        e = self.enc
        if isinstance(a, _Disc) or isinstance(b, _Disc):
            raise NotTranslatable("arithmetic on discriminant")
        if op in ("Eq", "Ne", "Lt", "Le", "Gt", "Ge"):
            if a.ty == "f64":
                return V("bool", e.fcmp(op, a.t, b.t))
            return V("bool", e.icmp(op, a.ty, a.t, b.t))
        if a.ty == "f64":
            if op not in ("Add", "Sub", "Mul", "Div"):
                raise NotTranslatable("float op " + op)
            return V("f64", e.fbin(op, a.t, b.t))
        if a.ty == "bool":
            if op == "BitAnd":
                return V("bool", land([a.t, b.t]))
            if op == "BitOr":
                return V("bool", lor([a.t, b.t]))
            if op == "BitXor":
                return V("bool", "(xor %s %s)" % (a.t, b.t))
            raise NotTranslatable("bool op " + op)
        if op.endswith("WithOverflow"):
            v, o = e.iovf(op[:3], a.ty, a.t, b.t)
            return Tup([V(a.ty, v), V("bool", o)])
        if op.endswith("Unchecked"):
            op = op[:3]
        v, p = e.ibin(op, a.ty, a.t, b.t)
        if p != "false":
            # rustc always guards Div/Rem with explicit asserts before; the op's own panic is then redundant.
            self._pending_panic.append(p)
        return V(a.ty, v)

    # ---- callees
    def norm_callee(self, c):
        """strip a trailing turbofish `::<...>` (bracket-matched from the end)"""
        c = c.strip()
        if c.endswith(">"):
            depth = 0
            i = len(c) - 1
            while i >= 0:
                ch = c[i]
                if ch == ">" and not (i > 0 and c[i - 1] in "-="):
                    depth += 1
                elif ch == "<":
                    depth -= 1
                    if depth == 0:
                        break
                i -= 1
            if i >= 2 and c[i - 2:i] == "::" and not c.startswith("<", 0, 1) or (i >= 2 and c[i - 2:i] == "::" and i > 2):
                head = c[:i - 2]
                if head and not head.endswith(">::") or True:
                    # only strip when what precedes is a path segment name (method or function), not `impl ...`
                    if re.search(r"[\w\]]$", head):
                        return head
        return c

    def call(self, st, callee, args, fn, depth, dest_ty=None):
        """returns (value, panic_term, diverges)"""
        e = self.enc
        c = self.norm_callee(callee)
        a = [self.operand(st, x) for x in args]
        self.callees_used.add(c)

        def scal(i):
            if not isinstance(a[i], V):
                raise NotTranslatable("callee %s on non-scalar" % c)
            return a[i]

        for rx, handler in self.stubs:
            if re.fullmatch(rx, c):
                self.stubs_used.append(c)
                return handler(self, c, a, dest_ty)

        m = re.fullmatch(r"core::num::<impl (i\d+|isize)>::saturating_(add|sub|mul)", c)
        if m:
            return V(m.group(1), e.saturating(m.group(2), m.group(1), scal(0).t, scal(1).t)), "false"
        m = re.fullmatch(r"core::num::<impl (i\d+|isize)>::saturating_div", c)
        if m:
            ty = m.group(1)
            lo, hi = e.irange(ty)
            q, p = e.ibin("Div", ty, scal(0).t, scal(1).t)
            if e.mode == "bv":
                ovf = "(and (= %s %s) (= %s %s))" % (a[0].t, e.int_const(ty, lo), a[1].t, e.int_const(ty, -1))
                zero = "(= %s %s)" % (a[1].t, e.int_const(ty, 0))
            else:
                ovf = "(and (= %s %s) (= %s (- 1)))" % (a[0].t, int_lit(lo), a[1].t)
                zero = "(= %s 0)" % a[1].t
            return V(ty, ite(ovf, e.int_const(ty, hi), q)), zero
        m = re.fullmatch(r"core::num::<impl (i\d+|isize)>::(wrapping_rem|wrapping_div|checked_rem|checked_div)", c)
        if m:
            ty, f = m.group(1), m.group(2)
            lo, hi = e.irange(ty)
            op = "Rem" if f.endswith("rem") else "Div"
            v, _p = e.ibin(op, ty, scal(0).t, scal(1).t)
            zero = "(= %s %s)" % (a[1].t, e.int_const(ty, 0))
            ovf = "(and (= %s %s) (= %s %s))" % (a[0].t, e.int_const(ty, lo), a[1].t, e.int_const(ty, -1))
            wrapped = ite(ovf, e.int_const(ty, 0) if op == "Rem" else e.int_const(ty, lo), v)
            if f.startswith("wrapping"):
                return V(ty, wrapped), zero
            return En("Option", ite(lor([zero, ovf]), "0", "1"), {0: [], 1: [V(ty, v)]}), "false"
        m = re.fullmatch(r"core::num::<impl (i\d+|isize)>::(abs|signum|wrapping_abs)", c)
        if m:
            ty, f = m.group(1), m.group(2)
            lo, _ = e.irange(ty)
            x = scal(0).t
            neg = e.icmp("Lt", ty, x, e.int_const(ty, 0))
            if f == "signum":
                return V(ty, ite(neg, e.int_const(ty, -1), ite("(= %s %s)" % (x, e.int_const(ty, 0)), e.int_const(ty, 0), e.int_const(ty, 1)))), "false"
            negx = "(bvneg %s)" % x if e.mode == "bv" else "(- %s)" % x
            p = "(= %s %s)" % (x, e.int_const(ty, lo)) if f == "abs" else "false"
            return V(ty, ite(neg, negx, x)), p
        m = re.fullmatch(r"<(?:chrono::)?(NaiveDate|NaiveTime|NaiveDateTime|std::string::String|String) as (?:Partial)?Ord>::(min|max|gt|lt|ge|le)", c)
        if m and e.mode == "math":
            x, y = scal(0), scal(1)
            f = m.group(2)
            if f in ("min", "max"):
                le = "(<= %s %s)" % (x.t, y.t)
                return V("i64", ite(le, x.t, y.t) if f == "min" else ite(le, y.t, x.t)), "false"
            return V("bool", "(%s %s %s)" % ({"gt": ">", "lt": "<", "ge": ">=", "le": "<="}[f], x.t, y.t)), "false"
        m = re.fullmatch(r"(?:<(i\d+|u\d+|isize|usize) as Ord>::|std::cmp::|core::cmp::)(min|max)", c)
        if m:
            x, y = scal(0), scal(1)
            if x.ty == "f64":
                raise NotTranslatable("Ord on f64")
            le = e.icmp("Le", x.ty, x.t, y.t)
            return V(x.ty, ite(le, x.t, y.t) if m.group(2) == "min" else ite(le, y.t, x.t)), "false"
        m = re.fullmatch(r"(?:std|core)::f64::<impl f64>::(\w+)", c)
        if m:
            f = m.group(1)
            x = scal(0).t
            if f in ("floor", "ceil", "trunc", "round"):
                return V("f64", e.fround(f, x)), "false"
            if f == "abs":
                return V("f64", "(fp.abs %s)" % x if e.mode == "bv" else "(ite (>= %s 0.0) %s (- %s))" % (x, x, x)), "false"
            if f in ("min", "max"):
                y = scal(1).t
                if e.mode == "bv":
                    # Rust f64::min/max: if one argument is NaN the other is returned
                    cmpf = "fp.leq" if f == "min" else "fp.geq"
                    return V("f64", "(ite (fp.isNaN %s) %s (ite (fp.isNaN %s) %s (ite (%s %s %s) %s %s)))" % (x, y, y, x, cmpf, x, y, x, y)), "false"
                return V("f64", "(ite (%s %s %s) %s %s)" % ("<=" if f == "min" else ">=", x, y, x, y)), "false"
            if f == "clamp":
                lo, hi = scal(1).t, scal(2).t
                if e.mode == "bv":
                    p = "(not (fp.leq %s %s))" % (lo, hi)
                    v = "(ite (fp.lt %s %s) %s (ite (fp.gt %s %s) %s %s))" % (x, lo, lo, x, hi, hi, x)
                else:
                    p = "(not (<= %s %s))" % (lo, hi)
                    v = "(ite (< %s %s) %s (ite (> %s %s) %s %s))" % (x, lo, lo, x, hi, hi, x)
                return V("f64", v), p
            if f == "sqrt":
                if e.mode == "bv":
                    return V("f64", "(fp.sqrt RNE %s)" % x), "false"
                s = e.new("f64", "sqrt")
                e.side.append("(=> (>= %s 0.0) (and (>= %s 0.0) (= (* %s %s) %s)))" % (x, s, s, s, x))
                return V("f64", s), "false"
            if f == "signum":
                if e.mode == "bv":
                    return V("f64", "(ite (fp.isNaN %s) %s (ite (fp.isNegative %s) %s %s))" % (x, x, x, fp_lit(-1.0), fp_lit(1.0))), "false"
                return V("f64", "(ite (< %s 0.0) (- 1.0) 1.0)" % x), "false"
            if f == "powi":
                return self.powi(a), "false"
            if f in ("ln", "exp", "sin", "cos", "log", "powf", "log10", "log2", "tan"):
                name = "uf_" + f
                tys = ["f64"] * len(a)
                e.declare_uf(name, tys, "f64")
                return V("f64", "(%s %s)" % (name, " ".join(scal(i).t for i in range(len(a))))), "false"
            if f == "fract":  # std: self - self.trunc()
                return V("f64", e.fbin("Sub", x, e.fround("trunc", x))), "false"
            if f in ("is_nan", "is_finite", "is_infinite", "is_sign_negative", "is_sign_positive"):
                if e.mode == "bv":
                    t = {"is_nan": "(fp.isNaN %s)", "is_finite": "(not (or (fp.isNaN %s) (fp.isInfinite %s)))", "is_infinite": "(fp.isInfinite %s)",
                         "is_sign_negative": "(fp.isNegative %s)", "is_sign_positive": "(fp.isPositive %s)"}[f]
                    return V("bool", t.replace("%s", x)), "false"
                t = {"is_nan": "false", "is_finite": "true", "is_infinite": "false", "is_sign_negative": "(< %s 0.0)" % x, "is_sign_positive": "(>= %s 0.0)" % x}[f]
                return V("bool", t), "false"
            raise NotTranslatable("f64 method " + f)
        m = re.fullmatch(r"<(\w+) as (?:std::convert::)?(?:Into|From)<(\w+)>>::(?:into|from)", c)
        if m and m.group(1) == m.group(2):
            return a[0], "false"
        m = re.fullmatch(r"<(i64|f64|bool) as Clone>::clone", c)
        if m:
            return a[0], "false"
        m = re.fullmatch(r"(?:std|core)::option::Option::<.+>::(unwrap|expect)", c) or re.fullmatch(r"(?:std|core)::result::Result::<.+>::(unwrap|expect)", c)
        if m:
            v = a[0]
            if isinstance(v, En):
                good = 1 if v.name == "Option" else 0
                if good not in v.variants:
                    return None, "true"
                return v.variants[good][0], "(not (= %s %d))" % (v.disc, good)
            raise NotTranslatable("unwrap of non-enum")
        m = re.fullmatch(r"<(\w+) as TryFrom<(\w+)>>::try_from", c)
        if m and m.group(1) in INT_W and m.group(2) in INT_W:
            dst, srcty = m.group(1), m.group(2)
            x = scal(0)
            lo, hi = e.irange(dst)
            slo, shi = e.irange(srcty)
            conds = []
            if e.mode == "bv":
                ws = INT_W[srcty]
                if slo < lo:
                    conds.append("(bvsge %s %s)" % (x.t, e.int_const(srcty, lo)))
                if shi > hi:
                    conds.append(("(bvsle %s %s)" if is_signed(srcty) else "(bvule %s %s)") % (x.t, e.int_const(srcty, hi)))
            else:
                if slo < lo:
                    conds.append("(>= %s %s)" % (x.t, int_lit(lo)))
                if shi > hi:
                    conds.append("(<= %s %s)" % (x.t, int_lit(hi)))
            okc = land(conds)
            conv = self.cast(x, dst, "IntToInt")
            return En("Result", ite(okc, "0", "1"), {0: [conv], 1: [Opaque("TryFromIntError")]}), "false"
        m = re.fullmatch(r"(?:std|core)::result::Result::<.+>::(unwrap_or|is_ok|is_err|ok)", c)
        if m:
            v = a[0]
            if not isinstance(v, En):
                raise NotTranslatable("Result method on %r" % (v,))
            f = m.group(1)
            if f == "is_ok":
                return V("bool", "(= %s 0)" % v.disc), "false"
            if f == "is_err":
                return V("bool", "(= %s 1)" % v.disc), "false"
            if f == "ok":
                return En("Option", "(ite (= %s 0) 1 0)" % v.disc, {0: [], 1: v.variants.get(0, [])}), "false"
            okv = v.variants.get(0)
            if okv is None:
                return a[1], "false"
            return merge("(= %s 0)" % v.disc, okv[0], a[1]), "false"
        m = re.fullmatch(r"(?:std|core)::option::Option::<.+>::(cloned|copied|unwrap_or|is_some|is_none)", c)
        if m:
            v = a[0]
            if not isinstance(v, En):
                raise NotTranslatable("Option method on %r" % (v,))
            f = m.group(1)
            if f in ("cloned", "copied"):
                return v, "false"
            if f == "is_some":
                return V("bool", "(= %s 1)" % v.disc), "false"
            if f == "is_none":
                return V("bool", "(= %s 0)" % v.disc), "false"
            some = v.variants.get(1)
            if some is None:
                return a[1], "false"
            return merge("(= %s 1)" % v.disc, some[0], a[1]), "false"
        # crate-local function: inline when translatable
        target = self.resolve_local(c, fn)
        if target is not None and depth < self.inline_depth:
            val, panic = self.translate_fn(target, a, depth + 1)
            return val, panic
        raise NotTranslatable("callee %s" % c)

    def powi(self, a):
        e = self.enc
        base, n = a[0], a[1]
        # only 10f64.powi(n) with |n| <= 22 tabulated exactly (10^k is exact in f64 up to 10^22)
        ten = e.f_const(10.0)
        if base.t != ten:
            raise NotTranslatable("powi with non-constant base")
        e.declare_uf("uf_powi10", ["i32"], "f64")
        t = "(uf_powi10 %s)" % n.t
        for k in range(22, -1, -1):
            t = ite("(= %s %s)" % (n.t, e.int_const("i32", k)), e.f_const(float(10 ** k)), t)
        if e.mode == "math":
            for k in range(1, 19):
                import fractions
                from smt import real_lit
                t = ite("(= %s %s)" % (n.t, e.int_const("i32", -k)), real_lit(fractions.Fraction(1, 10 ** k)), t)
        else:
            for k in range(1, 19):
                t = ite("(= %s %s)" % (n.t, e.int_const("i32", -k)), "(fp.div RNE %s %s)" % (e.f_const(1.0), e.f_const(float(10 ** k))), t)
        return V("f64", t)

    # ---- crate-local resolution
    def impl_index(self):
        if self._impl_index is None and id(self.fns) in _IMPL_INDEX:
            self._impl_index = _IMPL_INDEX[id(self.fns)]
        if self._impl_index is None:
            idx = {}
            srcs = {}
            for name, f in self.fns.items():
                m = re.match(r"(?:[\w:]+::)?<impl at ([^:]+):(\d+):\d+: \d+:\d+>::(\w+)$", name)
                if m:
                    path = os.path.join(self.src_root, m.group(1))
                    try:
                        if path not in srcs:
                            srcs[path] = open(path).read().split("\n")
                        line = srcs[path][int(m.group(2)) - 1]
                    except Exception:
                        continue
                    mi = re.match(r"\s*impl(?:<.*?>)?\s+(?:([\w:<>, ]+?)\s+for\s+)?([\w:<>, ]+?)\s*(?:\{|where|$)", line)
                    if mi:
                        trait = (mi.group(1) or "").split("::")[-1].strip()
                        ty = mi.group(2).strip()
                        idx[(trait, ty, m.group(3))] = name
            self._impl_index = idx
            _IMPL_INDEX[id(self.fns)] = idx
        return self._impl_index

    def resolve_local(self, c, fn):
        if c in self.fns:
            return c
        m = re.fullmatch(r"<(.+) as (.+)>::(\w+)", c)
        if m:
            ty, trait, meth = m.group(1).strip(), m.group(2).split("::")[-1].strip(), m.group(3)
            key = (trait, ty, meth)
            if key in self.impl_index():
                return self.impl_index()[key]
            ty2 = ty.split("::")[-1]
            for (t, y, me), name in self.impl_index().items():
                if t == trait and me == meth and y.split("::")[-1] == ty2:
                    return name
        # inherent method `Type::<..>::method`
        m = re.fullmatch(r"((?:\w+::)*\w+)(?:::<.*>)?::(\w+)", c)
        if m:
            base, meth = m.group(1).split("::")[-1], m.group(2)
            for (t, y, me), name in self.impl_index().items():
                if t == "" and me == meth and re.split(r"[<\s]", y.split("::")[-1])[0] == base:
                    return name
        # same-module short names
        for k in self.fns:
            if k.endswith("::" + c) or k == c:
                return k
        return None

    # ---- main loop
    def translate_fn(self, name, args, depth=0):
        """args: list of values for the declared arguments (references erased). -> (value, panic_term)"""
        fn = self.fns[name]
        if len(args) != len(fn.args):
            raise NotTranslatable("arity of %s" % name)
        st = {}
        for (n, t), v in zip(fn.args, args):
            st[n] = v
        order = self.topo(fn)
        self._pending_panic = []
        val, panic = self.run_block(fn, "bb0", st, depth, set())
        return val, panic

    def topo(self, fn):
        return None

    def run_block(self, fn, bb, st, depth, onpath):
        if bb in onpath:
            raise NotTranslatable("loop in CFG of %s at %s" % (fn.name, bb))
        if bb in fn.cleanup:
            raise NotTranslatable("cleanup block reached")
        onpath = onpath | {bb}
        st = dict(st)
        panic = []
        stmts = fn.blocks[bb]
        for s in stmts[:-1]:
            self.statement(fn, st, s)
        if getattr(self, "_pending_panic", None):
            # Div/Rem panic terms (redundant with rustc's own asserts, kept for safety)
            panic.extend(self._pending_panic)
            self._pending_panic = []
        term = stmts[-1]
        if self.is_statement(term):
            raise NotTranslatable("block without terminator: %s" % term)
        v, p = self.terminator(fn, st, term, depth, onpath)
        return v, lor(panic + [p])

    def is_statement(self, s):
        return False

    def statement(self, fn, st, s):
        s = s.rstrip(";")
        if s.startswith(("StorageLive", "StorageDead", "nop", "FakeRead", "PlaceMention", "AscribeUserType", "Retag", "Coverage", "ConstEvalCounter")):
            return
        m = re.match(r"^(.+?) = (.+)$", s)
        if not m:
            raise NotTranslatable("statement %r" % s)
        lhs, rv = m.group(1), m.group(2)
        val = self.rvalue(st, rv, fn)
        self.assign(st, lhs, val)

    def terminator(self, fn, st, t, depth, onpath):
        t = t.rstrip(";")
        if t == "return":
            if "_0" not in st:
                return Opaque("unit"), "false"
            return st["_0"], "false"
        if t == "unreachable":
            return None, "false"
        m = re.fullmatch(r"goto -> (bb\d+)", t)
        if m:
            return self.run_block(fn, m.group(1), st, depth, onpath)
        m = re.fullmatch(r"switchInt\((.+)\) -> \[(.+)\]", t)
        if m:
            v = self.operand(st, m.group(1))
            arms = []
            other = None
            for arm in split_top(m.group(2)):
                k, tgt = arm.split(": ")
                if k.strip() == "otherwise":
                    other = tgt.strip()
                else:
                    arms.append((int(k), tgt.strip()))
            res = None
            conds = [(k, tgt, self.switch_cond(v, k)) for k, tgt in arms]
            for k, tgt, c in conds:
                if c == "true":  # decided branch: the others are infeasible
                    return self.run_block(fn, tgt, st, depth, onpath)
            conds = [(k, tgt, c) for k, tgt, c in conds if c != "false"]
            # build from the otherwise arm backwards
            if other is not None:
                res = self.run_block(fn, other, st, depth, onpath)
            for k, tgt, c in reversed(conds):
                r = self.run_block(fn, tgt, st, depth, onpath)
                if res is None:
                    res = r
                else:
                    res = (merge(c, r[0], res[0]), ite(c, r[1], res[1]))
            return res
        m = re.fullmatch(r"assert\((!?)(.+?), \"(.*)\"(?:, .*)?\) -> \[success: (bb\d+), unwind.*\]", t)
        if m:
            c = self.operand(st, m.group(2))
            cond = lnot(c.t) if m.group(1) else c.t
            v, p = self.run_block(fn, m.group(4), st, depth, onpath)
            return v, lor([lnot(cond), p])
        m = re.fullmatch(r"drop\(.+\) -> \[return: (bb\d+), unwind.*\]", t)
        if m:
            return self.run_block(fn, m.group(1), st, depth, onpath)
        m = re.fullmatch(r"(.+\)) -> (?:\[return: (bb\d+), unwind.*\]|unwind.*)", t)
        if m:
            calltxt, nxt = m.group(1), m.group(2)
            # split `dest = callee(args)` with bracket matching from the end (turbofish may contain parentheses)
            depth, i = 0, len(calltxt) - 1
            while i >= 0:
                if calltxt[i] == ")":
                    depth += 1
                elif calltxt[i] == "(":
                    depth -= 1
                    if depth == 0:
                        break
                i -= 1
            args = calltxt[i + 1:-1]
            head = calltxt[:i]
            md = re.match(r"^(_\d+|\(.+?\)) = (.+)$", head)
            dest, callee = (md.group(1), md.group(2)) if md else (None, head)
            if callee.startswith(("std::rt::begin_panic", "core::panicking::", "std::panicking::")) or nxt is None:
                return None, "true"
            saved = self._pending_panic
            dty = fn.locals.get(dest.strip()) if dest and re.fullmatch(r"_\d+", dest.strip()) else None
            val, p = self.call(st, callee, split_top(args), fn, depth, dty)
            self._pending_panic = saved
            if dest and val is not None:
                self.assign(st, dest, val)
            elif dest and val is None:
                return None, p
            v, p2 = self.run_block(fn, nxt, st, depth, onpath)
            return v, lor([p, p2])
        raise NotTranslatable("terminator %r" % t)

    def switch_cond(self, v, k):
        e = self.enc
        if isinstance(v, _Disc):
            l = e._lit(v.t)
            if isinstance(l, int):
                return "true" if l == k else "false"
            return "(= %s %s)" % (v.t, int_lit(k))
        if v.ty == "bool":
            return v.t if k else lnot(v.t)
        return e.icmp("Eq", v.ty, v.t, e.int_const(v.ty, k))


class LazyEnv:
    """closure environment: captured variables become fresh symbolic values of the type the projection states"""

    def __init__(self, name="env"):
        self.name = name
        self.fields = {}
        self.syms = []

    def field(self, k, ty, tr):
        if k not in self.fields:
            self.fields[k] = tr.sym_of_type(ty, "%s_%d" % (self.name, k), self.syms)
        return self.fields[k]


class _Disc:
    """discriminant read (an Int term)"""
    __slots__ = ("t", "ty")

    def __init__(self, t):
        self.t = t
        self.ty = "disc"


# --------------------------------------------------------------------------------------- convenience


ORD_TYPES = {"NaiveDate", "NaiveTime", "NaiveDateTime", "chrono::NaiveDate", "chrono::NaiveTime", "chrono::NaiveDateTime", "std::string::String", "String"}


def kernel(fns, name, mode="bv", arg_names=None):
    """Translate closure/function `name` with fresh symbolic scalar arguments.
    -> dict(decls, args [(name, ty)], ret (value), panic, enc, callees)"""
    fn = fns[name]
    enc = Enc(mode)
    tr = Translator(fns, enc)
    args, syms = [], []
    for i, (n, t) in enumerate(fn.args):
        t0 = t.lstrip("&").strip()
        if t0.startswith("mut "):
            t0 = t0[4:]
        if "{closure@" in t0:
            args.append(LazyEnv("env"))
            continue
        if t0 in INT_W or t0 in ("f64", "bool"):
            sym = (arg_names[len(syms)] if arg_names and len(syms) < len(arg_names) else "a%d" % len(syms))
            syms.append((sym, t0))
            args.append(V(t0, sym))
            continue
        if t0 in ORD_TYPES and mode == "math":
            # a totally ordered opaque type (dates, times, strings): its values are read as points of an integer line; only
            # comparisons / min / max are modelled (ORD callees below), anything else on such a value is not translatable
            sym = (arg_names[len(syms)] if arg_names and len(syms) < len(arg_names) else "a%d" % len(syms))
            syms.append((sym, "i64"))
            args.append(V("i64", sym))
            continue
        m = re.fullmatch(r"\((.*)\)", t0)
        if m:  # tuple of scalars
            items = []
            for tt in split_top(m.group(1)):
                if tt in INT_W or tt in ("f64", "bool"):
                    sym = (arg_names[len(syms)] if arg_names and len(syms) < len(arg_names) else "a%d" % len(syms))
                    syms.append((sym, tt))
                    items.append(V(tt, sym))
                else:
                    raise NotTranslatable("argument type %s" % t)
            args.append(Tup(items))
            continue
        raise NotTranslatable("argument type %s" % t)
    val, panic = tr.translate_fn(name, args)
    decls = ["(declare-const %s %s)" % (s, enc.sort(t)) for s, t in syms] + enc.decls
    return dict(name=name, decls=decls, args=syms, ret=val, panic=panic, enc=enc, side=list(enc.side), callees=sorted(tr.callees_used),
                ret_ty=fn.ret)


if __name__ == "__main__":
    path, secs = dump_mir()
    fns = parse_mir(path)
    print("parsed", len(fns), "functions in", round(secs, 1), "s")
    ok = bad = 0
    for name, f in fns.items():
        if "{closure" in name and re.search(r"closure@src/data_type/(function|injection)\.rs", f.header):
            sig = [t for _, t in f.args[1:]]
            if all(t.lstrip("&") in ("i64", "f64", "bool") for t in sig) and sig:
                for mode in ("bv", "math"):
                    try:
                        k = kernel(fns, name, mode)
                        ok += 1
                        if mode == "bv":
                            print("OK ", name, [t for _, t in k["args"]], "->", f.ret, "| panic:", k["panic"][:80])
                    except NotTranslatable as ex:
                        bad += 1
                        print("NT ", mode, name, ex)
    print(ok, bad)
