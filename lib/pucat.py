"""Catalogue for the privacy checks (C05, C01, C09, C04, C03): a users - orders - items chain plus a public table,
privacy-unit definitions, and the ownership relation computed independently of the code under test."""
import driver
from driver import t_int, t_float, t_opt
from smt import land, lor, lnot


def f(name, dt, constraint=None):
    return dict(name=name, dt=dt, constraint=constraint)


def tables(K, wide=False):
    amount = t_float((-1000.0, 1000.0)) if wide else t_float((-10.0, 50.0))
    return [
        dict(name="users", size=[0, K], fields=[f("id", t_int((0, 5)), "PrimaryKey"), f("age", t_float((0.0, 100.0))), f("city", t_int((1, 1), (2, 2), (3, 3)))]),
        dict(name="orders", size=[0, K], fields=[f("id", t_int((0, 9)), "PrimaryKey"), f("user_id", t_int((0, 5))), f("amount", amount), f("kind", t_int((1, 1), (2, 2))), f("qty", t_opt(t_int((0, 7)))), f("bal", t_float((-100.0, 10.0))),
                                                  f("tag", t_opt(t_int((0, 9))), "Unique")]),
        dict(name="items", size=[0, K], fields=[f("id", t_int((0, 20)), "PrimaryKey"), f("order_id", t_int((0, 9))), f("price", t_float((0.0, 20.0)))]),
        dict(name="pub", size=[0, K], fields=[f("k", t_int((1, 1), (2, 2), (3, 3))), f("label", t_float((0.0, 1.0)))]),
    ]


# privacy-unit definitions: name -> (driver JSON, {table: (path steps, field)})
def pu_defs():
    chain = [dict(table="users", path=[], field="id"), dict(table="orders", path=[["user_id", "users", "id"]], field="id"),
             dict(table="items", path=[["order_id", "orders", "id"], ["user_id", "users", "id"]], field="id")]
    own = [dict(table="users", path=[], field="id"), dict(table="orders", path=[], field="user_id")]
    return {
        "chain": dict(tables=chain, hash=False),
        "chain-hashed": dict(tables=chain, hash=True),
        "own-column": dict(tables=own, hash=False),
    }


def owner_terms(pu, db, u, ctx=None):
    """{table name: [term 'row i is owned by unit u' per row slot]} following the foreign-key paths on the symbolic database.
    db: {(table,): Rel}. Referred ids are primary keys (assumed), so a row has at most one owner."""
    spec = {t["table"]: t for t in pu["tables"]}
    memo = {}

    def owned(table):
        if table in memo:
            return memo[table]
        s = spec[table]
        rel = db[(table,)]
        out = []
        if not s["path"]:
            for r in rel.rows:
                c = r.cells[s["field"]]
                out.append(land([lnot(c.n), "(= %s %s)" % (c.t, u)]))
        else:
            fk, ref, refid = s["path"][0]
            # the remaining path is the referred table's own definition (the catalogue is consistent with that)
            ref_owned = owned(ref) if ref in spec else None
            refrel = db[(ref,)]
            for r in rel.rows:
                c = r.cells[fk]
                alts = []
                for j, rr in enumerate(refrel.rows):
                    cc = rr.cells[refid]
                    alts.append(land([rr.p, lnot(c.n), lnot(cc.n), "(= %s %s)" % (c.t, cc.t), ref_owned[j]]))
                out.append(lor(alts))
        memo[table] = out
        return out

    return {t: owned(t) for t in spec}


def py_owner(pu, dbm):
    """python version on a concrete database {(table,): [row dict]} -> {table: [owner id or None per row]}"""
    spec = {t["table"]: t for t in pu["tables"]}
    memo = {}

    def owners(table):
        if table in memo:
            return memo[table]
        s = spec[table]
        rows = dbm.get((table,), [])
        if not s["path"]:
            out = [r[s["field"]] for r in rows]
        else:
            fk, ref, refid = s["path"][0]
            ro = owners(ref)
            refrows = dbm.get((ref,), [])
            out = []
            for r in rows:
                o = None
                for rr, oo in zip(refrows, ro):
                    if r[fk] is not None and rr[refid] == r[fk]:
                        o = oo
                out.append(o)
        memo[table] = out
        return out

    return {t: owners(t) for t in spec}
