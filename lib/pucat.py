"""Catalogue for the privacy checks (C05, C01, C09, C04, C03): a users - orders - items chain plus a public table,
privacy-unit definitions, and the ownership relation computed independently of the code under test."""
import driver
from driver import t_int, t_float, t_opt
from smt import land, lor, lnot


def f(name, dt, constraint=None):
    return dict(name=name, dt=dt, constraint=constraint)


def tables(K, wide=False):
    amount = t_float((-1000.0, 1000.0)) if wide else t_float((-10.0, 50.0))
    return [
        dict(name="users", size=[0, K], fields=[f("id", t_int((0, 5)), "PrimaryKey"), f("age", t_float((0.0, 100.0))), f("city", t_int((1, 1), (2, 2), (3, 3)))]),
        dict(name="orders", size=[0, K], fields=[f("id", t_int((0, 9)), "PrimaryKey"), f("user_id", t_int((0, 5))), f("amount", amount), f("kind", t_int((1, 1), (2, 2))), f("qty", t_opt(t_int((0, 7)))), f("bal", t_float((-100.0, 10.0))),
                                                  f("tag", t_opt(t_int((0, 9))), "Unique"), f("frac", t_float((0.0, 0.25))), f("flag", t_int((0, 0), (1, 1))),
                                                  f("wgt", t_float((1.0, 3.0)))]),
        dict(name="items", size=[0, K], fields=[f("id", t_int((0, 20)), "PrimaryKey"), f("order_id", t_int((0, 9))), f("price", t_float((0.0, 20.0)))]),
        dict(name="pub", size=[0, K], fields=[f("k", t_int((1, 1), (2, 2), (3, 3))), f("label", t_float((0.0, 1.0)))]),
    ]


# privacy-unit definitions: name -> (driver JSON, {table: (path steps, field)})
def pu_defs():
    chain = [dict(table="users", path=[], field="id"), dict(table="orders", path=[["user_id", "users", "id"]], field="id"),
             dict(table="items", path=[["order_id", "orders", "id"], ["user_id", "users", "id"]], field="id")]
    own = [dict(table="users", path=[], field="id"), dict(table="orders", path=[], field="user_id")]
    return {
        "chain": dict(tables=chain, hash=False),
        "chain-hashed": dict(tables=chain, hash=True),
        "own-column": dict(tables=own, hash=False),
        # row-level weights: the unit of an order is its user_id, its weight the column wgt (users is then not protected)
        "own-weighted": dict(tables=[dict(table="orders", path=[], field="user_id", weight="wgt")], hash=False),
    }


def owner_terms(pu, db, u, ctx=None):
    """{table name: [term 'row i is owned by unit u' per row slot]} following the foreign-key paths on the symbolic database.
    db: {(table,): Rel}. Referred ids are primary keys (assumed), so a row has at most one owner."""
    spec = {t["table"]: t for t in pu["tables"]}
    memo = {}

    def owned(table):
        if table in memo:
            return memo[table]
        s = spec[table]
        rel = db[(table,)]
        out = []
        if not s["path"]:
            for r in rel.rows:
                c = r.cells[s["field"]]
                out.append(land([lnot(c.n), "(= %s %s)" % (c.t, u)]))
        else:
            fk, ref, refid = s["path"][0]
            # the remaining path is the referred table's own definition (the catalogue is consistent with that)
            ref_owned = owned(ref) if ref in spec else None
            refrel = db[(ref,)]
            for r in rel.rows:
                c = r.cells[fk]
                alts = []
                for j, rr in enumerate(refrel.rows):
                    cc = rr.cells[refid]
                    alts.append(land([rr.p, lnot(c.n), lnot(cc.n), "(= %s %s)" % (c.t, cc.t), ref_owned[j]]))
                out.append(lor(alts))
        memo[table] = out
        return out

    return {t: owned(t) for t in spec}


def py_owner(pu, dbm):
    """python version on a concrete database {(table,): [row dict]} -> {table: [owner id or None per row]}"""
    spec = {t["table"]: t for t in pu["tables"]}
    memo = {}

    def owners(table):
        if table in memo:
            return memo[table]
        s = spec[table]
        rows = dbm.get((table,), [])
        if not s["path"]:
            out = [r[s["field"]] for r in rows]
        else:
            fk, ref, refid = s["path"][0]
            ro = owners(ref)
            refrows = dbm.get((ref,), [])
            out = []
            for r in rows:
                o = None
                for rr, oo in zip(refrows, ro):
                    if r[fk] is not None and rr[refid] == r[fk]:
                        o = oo
                out.append(o)
        memo[table] = out
        return out

    return {t: owners(t) for t in spec}


# ------------------------------------------------------------------------------------------------ program generator

NUM = {"orders": ["amount", "bal", "qty", "frac"], "users": ["age"], "items": ["price"]}
PUBKEY = {"orders": ["kind", "flag"], "users": ["city"], "items": []}


def random_dp_program(rnd, grouped=None, joins=True, aligned_only=False):
    """a seeded aggregation query over the catalogue -> (sql, key output names, aggregate output names).
    Shapes: one protected table, a join along the privacy-unit path (inner / left), a join that does not follow it, a join with the
    public table; optional WHERE; no GROUP BY or GROUP BY a public key (value set); 1-3 aggregates (sum / count / avg, DISTINCT)."""
    r = rnd.random()
    if not joins or r < 0.45:
        t = rnd.choice(["orders", "orders", "users", "items"])
        frm, alias = t, {t: ""}
    elif r < 0.65:
        kind = rnd.choice(["JOIN", "JOIN", "LEFT JOIN"])
        frm, alias = "orders AS o %s users AS u ON o.user_id = u.id" % kind, {"orders": "o.", "users": "u."}
        if kind == "LEFT JOIN" and rnd.random() < 0.5:
            frm = "users AS u LEFT JOIN orders AS o ON u.id = o.user_id"
    elif r < 0.8 and not aligned_only:
        frm, alias = "orders AS o JOIN users AS u ON o.kind = u.city", {"orders": "o.", "users": "u."}
    elif r < 0.9:
        frm, alias = "items AS i JOIN orders AS o ON i.order_id = o.id", {"items": "i.", "orders": "o."}
    else:
        frm, alias = "orders AS o JOIN pub AS p ON o.kind = p.k", {"orders": "o."}
    tabs = list(alias)
    cols = [(alias[t] + c, c) for t in tabs for c in NUM[t]]
    keys = [(alias[t] + c, c) for t in tabs for c in PUBKEY[t]]
    if "LEFT JOIN" in frm:
        # aggregate the preserved side only (padded NULLs of the other side are the known outer-join findings)
        pres = "u." if frm.startswith("users") else "o."
        cols = [c for c in cols if c[0].startswith(pres)]
        keys = [k for k in keys if k[0].startswith(pres)]
    items, kc, ac = [], [], []
    if grouped is None:
        grouped = rnd.random() < 0.4
    gb = ""
    if grouped and keys:
        ks = rnd.sample(keys, 2 if (len(keys) > 1 and rnd.random() < 0.4) else 1)
        for j, k in enumerate(ks):
            items.append("%s AS g%d" % (k[0], j))
            kc.append("g%d" % j)
        gb = " GROUP BY " + ", ".join(k[0] for k in ks)
    for i in range(rnd.choice([1, 1, 2, 3])):
        c = rnd.choice(cols)
        f = rnd.choice(["sum", "sum", "count", "avg", "sum(DISTINCT", "count(DISTINCT"])
        e = "%s(%s)" % (f, c[0]) if "(" not in f else "%s %s)" % (f, c[0])
        items.append("%s AS r%d" % (e, i))
        ac.append("r%d" % i)
    where = ""
    if rnd.random() < 0.35:
        c = rnd.choice(cols)
        where = " WHERE %s %s %s" % (c[0], rnd.choice([">", "<", ">="]), rnd.choice(["0", "1", "5", "-2"]))
    return "SELECT %s FROM %s%s%s" % (", ".join(items), frm, where, gb), kc, ac


def random_row_program(rnd):
    """a seeded non-aggregating query (for the privacy-unit tracking check)"""
    r = rnd.random()
    kinds = ["JOIN", "LEFT JOIN", "RIGHT JOIN", "FULL JOIN"]
    if r < 0.3:
        t = rnd.choice(["orders", "users", "items"])
        c = rnd.choice(NUM[t])
        q = "SELECT %s AS v FROM %s" % (rnd.choice([c, c + " + 1", c + " * 2"]), t)
        if rnd.random() < 0.6:
            q += " WHERE %s %s %s" % (c, rnd.choice([">", "<"]), rnd.choice(["0", "3"]))
        return q
    if r < 0.55:
        on = rnd.choice(["o.user_id = u.id", "o.kind = u.city", "o.user_id = u.id AND o.amount > 0", "o.qty = u.city"])
        return "SELECT o.amount AS x, u.age AS y FROM orders AS o %s users AS u ON %s" % (rnd.choice(kinds), on)
    if r < 0.7:
        on = rnd.choice(["a.kind = b.kind", "a.id = b.id", "a.user_id = b.user_id", "a.qty = b.qty"])
        return "SELECT a.amount AS x, b.bal AS y FROM orders AS a %s orders AS b ON %s" % (rnd.choice(kinds[:2]), on)
    if r < 0.85:
        return "SELECT o.amount AS x, p.label AS y FROM %s" % rnd.choice(["orders AS o JOIN pub AS p ON o.kind = p.k", "pub AS p JOIN orders AS o ON o.kind = p.k", "orders AS o LEFT JOIN pub AS p ON o.kind = p.k"])
    q, _, _ = random_dp_program(rnd, joins=rnd.random() < 0.5)
    return q
