"""Engine M composition lemmas for Intervals<B>: the higher-level operations (union, intersection, is_subset_of,
contains) are translated from their MIR with concrete-length, symbolic-content operands; the leaf operations they call
(union_interval, intersection_interval, empty, from_value, ==) are replaced by their *contracts* - the very statements
the Kani harnesses of /verif/kani prove on the compiled code (pre-states of <= 2 intervals; assumed beyond)."""
import re
import mir, hof
from mir import V, Tup, En, Seq, Opaque, AbsSet, NotTranslatable
from smt import land, lor, lnot, ite

CAP = 128


def make_intervals(enc, name, n, ty="i64"):
    """a valid concrete-length symbolic Intervals value and its validity constraints"""
    ivs, cons = [], []
    prev_hi = None
    for i in range(n):
        lo, hi = enc.new(ty, "%s_lo%d" % (name, i)), enc.new(ty, "%s_hi%d" % (name, i))
        cons.append("(<= %s %s)" % (lo, hi))
        if prev_hi is not None:
            cons.append("(< %s %s)" % (prev_hi, lo))
        prev_hi = hi
        ivs.append(Tup([V(ty, lo), V(ty, hi)]))
    return Tup([V("usize", str(CAP)), Seq.of(ivs)]), cons


def concrete_mem(val, v):
    """membership of the query point in a concrete Intervals value Tup([cap, Seq[[lo,hi]]])"""
    if isinstance(val, AbsSet):
        return val.mem
    if isinstance(val, Tup) and len(val.items) == 2 and isinstance(val.items[1], Seq):
        alts = []
        for g, iv in val.items[1].items:
            lo, hi = iv.items
            alts.append(land([g, "(<= %s %s)" % (lo.t, v), "(<= %s %s)" % (v, hi.t)]))
        return lor(alts)
    raise NotTranslatable("membership of %r" % (val,))


def stubs(enc, v, inline=()):
    """callee models; `inline` names the Intervals methods that are NOT stubbed (translated from their own MIR)"""
    mem = lambda x: concrete_mem(x, v)
    mir.SET_MEM[0] = mem
    P = r"intervals::Intervals::<B>::"

    def s_union_interval(tr, c, a, dty):
        s, lo, hi = a
        return AbsSet(lor([mem(s), land(["(<= %s %s)" % (lo.t, v), "(<= %s %s)" % (v, hi.t)])])), "(not (<= %s %s))" % (lo.t, hi.t)

    def s_intersection_interval(tr, c, a, dty):
        s, lo, hi = a
        return AbsSet(land([mem(s), "(<= %s %s)" % (lo.t, v), "(<= %s %s)" % (v, hi.t)])), "(not (<= %s %s))" % (lo.t, hi.t)

    def s_union(tr, c, a, dty):
        return AbsSet(lor([mem(a[0]), mem(a[1])])), "false"

    def s_intersection(tr, c, a, dty):
        return AbsSet(land([mem(a[0]), mem(a[1])])), "false"

    def s_empty(tr, c, a, dty):
        return Tup([V("usize", str(CAP)), Seq.of([])]), "false"

    def s_from_value(tr, c, a, dty):
        x = a[0]
        return Tup([V("usize", str(CAP)), Seq.of([Tup([x, x])])]), "false"

    def s_len(tr, c, a, dty):
        s = a[0]
        if isinstance(s, Tup) and isinstance(s.items[1], Seq) and s.items[1].plain():
            return V("usize", str(len(s.items[1].items))), "false"
        raise NotTranslatable("len of an abstract set")

    def s_clone(tr, c, a, dty):
        return a[0], "false"

    def s_eq(tr, c, a, dty):
        # representation equality implies equal membership at every point, in particular at the query point
        e = enc.new("bool", "eq")
        enc.side.append("(=> %s (= %s %s))" % (e, mem(a[0]), mem(a[1])))
        return V("bool", e), "false"

    def s_cmp(op):
        def f(tr, c, a, dty):
            return V("bool", "(%s %s %s)" % (op, a[0].t, a[1].t)), "false"
        return f

    table = {
        "union_interval": s_union_interval, "intersection_interval": s_intersection_interval, "union": s_union, "intersection": s_intersection,
        "empty": s_empty, "new": s_empty, "from_value": s_from_value, "len": s_len,
    }
    out = []
    for name, h in table.items():
        if name not in inline:
            out.append((P + name, h))
    out += [
        (r"<intervals::Intervals<B> as Clone>::clone", s_clone),
        (r"<B as Clone>::clone", s_clone),
        (r"<&?intervals::Intervals<B> as PartialEq>::eq", s_eq),
        (r"<intervals::Intervals<B> as (?:std::convert::)?From<B>>::from", s_from_value),
        (r"<&?B as PartialOrd>::le", s_cmp("<=")), (r"<&?B as PartialOrd>::lt", s_cmp("<")),
        (r"<&?B as PartialOrd>::ge", s_cmp(">=")), (r"<&?B as PartialOrd>::gt", s_cmp(">")),
        (r"<&?&?B as PartialEq>::eq", s_cmp("=")),
        (r"<Vec<\[B; 2\]> as IntoIterator>::into_iter", hof.h_iter),
        (r"<intervals::Intervals<B> as IntoIterator>::into_iter", lambda tr, c, a, dty: (a[0].items[1], "false")),
        (r"<intervals::Intervals<B> as Deref>::deref", lambda tr, c, a, dty: (a[0].items[1], "false")),
        (r"<Vec<\[B; 2\]> as Deref>::deref", hof.h_identity),
    ]
    return out + hof.STUBS
