"""Chrono model for engine M (C12 part D): dates, times and datetimes as integer tuples, the chrono calls that the
injection kernels make as callee models (`Translator.stubs`), and chrono's formatter (Display / strftime items) as
fixed-position character tuples over integer arithmetic (string theory did not decide these queries in 60 s on any
solver; digit extraction by div/mod of constants does in well under a second).

Representation (documented contract of chrono 0.4, the assumptions of every verdict of part D):
  NaiveDate      = number of days from 0001-01-01 (`num_days_from_ce`), one integer; for rendering, the triple (y, mo, d)
                   of the proleptic Gregorian calendar, which chrono maps bijectively to the day number
  NaiveTime      = (secs of day in [0, 86399], frac nanoseconds in [0, 999_999_999]); chrono's leap-second representation
                   (frac >= 10^9) is outside the bound
  NaiveDateTime  = (date, secs, frac); PartialEq / Ord are component-wise / lexicographic
  Display: NaiveDate "%Y-%m-%d", NaiveTime "%H:%M:%S%.f", NaiveDateTime "<date> <time>"; "%.f" prints nothing for
  frac = 0, otherwise '.' and 3, 6 or 9 digits (the shortest of the three that is exact). Years are bounded to 1..9999
  (four digits, no sign).
"""
import re
import mir
from mir import V, Tup, En
from smt import land, lor, lnot, ite

DT_TYPES = ("NaiveDateTime", "chrono::NaiveDateTime")
D_TYPES = ("NaiveDate", "chrono::NaiveDate")
T_TYPES = ("NaiveTime", "chrono::NaiveTime")


def _days(v):
    if isinstance(v, V):
        return v
    raise mir.NotTranslatable("chrono: date expected, got %r" % (v,))


def _dt(v):
    if isinstance(v, Tup) and len(v.items) == 3:
        return v
    raise mir.NotTranslatable("chrono: datetime expected, got %r" % (v,))


def _tm(v):
    if isinstance(v, Tup) and len(v.items) == 2:
        return v
    raise mir.NotTranslatable("chrono: time expected, got %r" % (v,))


def _hms_opt(date, h, m, s, frac="0"):
    ok = land(["(<= 0 %s)" % h, "(< %s 24)" % h, "(<= 0 %s)" % m, "(< %s 60)" % m, "(<= 0 %s)" % s, "(< %s 60)" % s])
    secs = "(+ (* 3600 %s) (* 60 %s) %s)" % (h, m, s)
    return ok, [date, V("u32", secs), V("u32", frac)]


def stubs():
    """[(regex on the normalised callee, handler(tr, callee, args, dest_ty) -> (value, panic term))]"""
    out = []

    def reg(rx):
        def deco(f):
            out.append((rx, f))
            return f
        return deco

    @reg(r"(?:chrono::)?NaiveDate::and_hms_opt")
    def _(tr, c, a, dest):
        ok, items = _hms_opt(_days(a[0]), a[1].t, a[2].t, a[3].t)
        return En("Option", ite(ok, "1", "0"), {0: [], 1: [Tup(items)]}), "false"

    @reg(r"(?:chrono::)?NaiveDate::and_hms")
    def _(tr, c, a, dest):
        ok, items = _hms_opt(_days(a[0]), a[1].t, a[2].t, a[3].t)
        return Tup(items), lnot(ok)

    @reg(r"(?:chrono::)?NaiveDate::and_time")
    def _(tr, c, a, dest):
        t = _tm(a[1])
        return Tup([_days(a[0])] + t.items), "false"

    @reg(r"(?:chrono::)?NaiveDateTime::new")
    def _(tr, c, a, dest):
        t = _tm(a[1])
        return Tup([_days(a[0])] + t.items), "false"

    @reg(r"(?:chrono::)?NaiveDateTime::date")
    def _(tr, c, a, dest):
        return _dt(a[0]).items[0], "false"

    @reg(r"(?:chrono::)?NaiveDateTime::time")
    def _(tr, c, a, dest):
        return Tup(_dt(a[0]).items[1:]), "false"

    @reg(r"<(?:chrono::)?NaiveDateTime as (?:std::cmp::)?PartialEq>::(eq|ne)")
    def _(tr, c, a, dest):
        x, y = _dt(a[0]), _dt(a[1])
        eq = land(["(= %s %s)" % (p.t, q.t) for p, q in zip(x.items, y.items)])
        return V("bool", eq if c.endswith("eq") else lnot(eq)), "false"

    @reg(r"<(?:chrono::)?NaiveDate as (?:std::cmp::)?PartialEq>::(eq|ne)")
    def _(tr, c, a, dest):
        eq = "(= %s %s)" % (_days(a[0]).t, _days(a[1]).t)
        return V("bool", eq if c.endswith("eq") else lnot(eq)), "false"

    @reg(r"<(?:chrono::)?(NaiveDateTime|NaiveTime) as (?:chrono::)?Timelike>::(num_seconds_from_midnight|nanosecond|hour|minute|second)")
    def _(tr, c, a, dest):
        v = a[0]
        secs, frac = (v.items[1], v.items[2]) if isinstance(v, Tup) and len(v.items) == 3 else tuple(_tm(v).items)
        f = c.rsplit("::", 1)[1]
        t = {"num_seconds_from_midnight": secs.t, "nanosecond": frac.t, "hour": "(div %s 3600)" % secs.t,
             "minute": "(mod (div %s 60) 60)" % secs.t, "second": "(mod %s 60)" % secs.t}[f]
        return V("u32", t), "false"

    @reg(r"<(?:chrono::)?(NaiveDate|NaiveDateTime|NaiveTime) as Clone>::clone")
    def _(tr, c, a, dest):
        return a[0], "false"

    @reg(r"(?:<?(?:chrono::)?(?:NaiveDate|NaiveTime|NaiveDateTime|TimeDelta|Duration)\b|(?:chrono::)?(?:Timelike|Datelike)::).*")
    def _(tr, c, a, dest):
        raise mir.NotTranslatable("chrono callee without a model: %s" % c)
    return out


def sym_args(fn, sfx=""):
    """fresh symbolic arguments for a closure over chrono types -> (args for translate_fn, decls, side conditions, names)"""
    args, decls, side, names = [], [], [], []
    for n, t in fn.args:
        t0 = t.lstrip("&").strip()
        if "{closure@" in t0:
            args.append(mir.LazyEnv("env"))
        elif t0 in D_TYPES:
            s = "days" + sfx
            decls.append("(declare-const %s Int)" % s)
            side += ["(<= 1 %s)" % s, "(<= %s 3652059)" % s]   # 0001-01-01 .. 9999-12-31
            args.append(V("i64", s))
            names.append(("date", [s]))
        elif t0 in DT_TYPES:
            ss = ["days" + sfx, "secs" + sfx, "frac" + sfx]
            decls += ["(declare-const %s Int)" % s for s in ss]
            side += ["(<= 1 %s)" % ss[0], "(<= %s 3652059)" % ss[0], "(<= 0 %s)" % ss[1], "(< %s 86400)" % ss[1], "(<= 0 %s)" % ss[2], "(< %s 1000000000)" % ss[2]]
            args.append(Tup([V("i64", ss[0]), V("u32", ss[1]), V("u32", ss[2])]))
            names.append(("datetime", ss))
        else:
            raise mir.NotTranslatable("chrono kernel argument type %s" % t)
    return args, decls, side, names


def translate(fns, name, sfx=""):
    """-> dict(val, panic, decls, side, names, callees) for the closure `name` with chrono-typed arguments (math mode)"""
    enc = mir.Enc("math")
    enc.fresh = (abs(hash(sfx)) % 97 + 1) * 1000
    tr = mir.Translator(fns, enc)
    tr.stubs = list(getattr(tr, "stubs", [])) + stubs()
    args, decls, side, names = sym_args(fns[name], sfx)
    val, panic = tr.translate_fn(name, args)
    return dict(val=val, panic=panic, decls=decls + list(enc.decls), side=side + list(enc.side), names=names, callees=sorted(tr.callees_used))


# ------------------------------------------------------------------------------------------- formatter

def renderer_of(fn):
    """Classify the body of an `X -> String` closure: ("display", T) for format!("{arg}"), ("strftime", T, fmt) for
    arg.format("..").to_string(); raises NotTranslatable otherwise."""
    text = "\n".join(fn.text)
    m = re.search(r"(?:chrono::)?(NaiveDateTime|NaiveDate|NaiveTime)::format(?:::<[^>]*>)?\((?:copy|move) [^,]+, (?:const \"((?:[^\"\\]|\\.)*)\"|(?:copy|move) (_\d+))\)", text)
    if m:
        fmt = m.group(2)
        if fmt is None:
            defs = re.findall(r"^\s*%s = const \"((?:[^\"\\]|\\.)*)\";" % re.escape(m.group(3)), text, re.M)
            if len(defs) != 1:
                raise mir.NotTranslatable("format string of %s::format is not a single constant" % m.group(1))
            fmt = defs[0]
        if "to_string" not in text or "\\" in fmt:
            raise mir.NotTranslatable("strftime call without to_string, or escapes in the format string")
        return ("strftime", m.group(1), fmt)
    m = re.search(r"new_display::<&+(?:chrono::)?(NaiveDateTime|NaiveDate|NaiveTime)>", text)
    if m and "std::fmt::format" in text or m and "alloc::fmt::format" in text:
        tpl = re.findall(r"const b\"((?:[^\"\\]|\\.)*)\"", text)
        if tpl == ["\\xc0\\x00"] and len(re.findall(r"new_(display|debug|lower_hex|upper_hex)", text)) == 1:
            return ("display", m.group(1))
        raise mir.NotTranslatable("format! template other than \"{arg}\": %r" % (tpl,))
    raise mir.NotTranslatable("formatter not recognised")


DISPLAY = {"NaiveDate": "%Y-%m-%d", "NaiveTime": "%H:%M:%S%.f", "NaiveDateTime": "%Y-%m-%d %H:%M:%S%.f"}
FIELDS = {"NaiveDate": ["y", "mo", "d"], "NaiveTime": ["h", "mi", "s", "ns"], "NaiveDateTime": ["y", "mo", "d", "h", "mi", "s", "ns"]}
RANGES = {"y": (1, 9999), "mo": (1, 12), "d": (1, 31), "h": (0, 23), "mi": (0, 59), "s": (0, 59), "ns": (0, 999999999)}
END = "-1"  # code of "past the end of the string": smaller than every character, so tuple order = lexicographic string order


WIDTH = {"y": 4, "mo": 2, "d": 2, "h": 2, "mi": 2, "s": 2, "ns": 9}


def _digits(n, w):
    """characters of the zero-padded decimal of width w. A plain field (y1, ns2 ..) has its decimal digits declared as
    integer constants tied to it by a linear constraint (field_decls), which the solvers handle far better than div / mod;
    derived terms fall back to div / mod by constants."""
    m = re.fullmatch(r"(y|mo|d|h|mi|s|ns)(\w*)", n)
    if m and WIDTH[m.group(1)] == w:
        return ["(+ 48 %s_d%d)" % (n, k) for k in range(w - 1, -1, -1)]
    return ["(+ 48 (mod (div %s %d) 10))" % (n, 10 ** k) for k in range(w - 1, -1, -1)]


def _need(ty, fields):
    for f in fields:
        if f not in FIELDS[ty]:
            raise mir.NotTranslatable("directive needs the field %s, which %s does not have" % (f, ty))


def render(ty, fmt, sfx):
    """strftime items -> list of character-code terms (Int) over the fields <name><sfx>; variable-width items must be last.
    Only the items chrono documents as numeric and fixed width (plus %.f) are modelled."""
    f = lambda n: n + sfx
    out = []
    i = 0
    variable_seen = False
    while i < len(fmt):
        ch = fmt[i]
        if variable_seen:
            raise mir.NotTranslatable("format item after the variable-width %.f")
        if ch != "%":
            if ord(ch) > 126 or ord(ch) < 32:
                raise mir.NotTranslatable("non-ASCII literal in format")
            out.append(str(ord(ch)))
            i += 1
            continue
        m = re.match(r"%(\.f|\.3f|\.6f|\.9f|3f|6f|9f|[A-Za-z%])", fmt[i:])
        if not m:
            raise mir.NotTranslatable("format item at %r" % fmt[i:])
        d = m.group(1)
        i += len(m.group(0))
        if d == "%":
            out.append("37")
        elif d == "Y":
            _need(ty, ["y"]); out += _digits(f("y"), 4)
        elif d == "y":
            _need(ty, ["y"]); out += _digits("(mod %s 100)" % f("y"), 2)
        elif d == "C":
            _need(ty, ["y"]); out += _digits("(div %s 100)" % f("y"), 2)
        elif d == "m":
            _need(ty, ["mo"]); out += _digits(f("mo"), 2)
        elif d == "d":
            _need(ty, ["d"]); out += _digits(f("d"), 2)
        elif d == "e":
            _need(ty, ["d"]); out += [ite("(< %s 10)" % f("d"), "32", _digits(f("d"), 2)[0]), _digits(f("d"), 2)[1]]
        elif d == "F":
            _need(ty, ["y", "mo", "d"]); out += _digits(f("y"), 4) + ["45"] + _digits(f("mo"), 2) + ["45"] + _digits(f("d"), 2)
        elif d == "H":
            _need(ty, ["h"]); out += _digits(f("h"), 2)
        elif d == "I":
            _need(ty, ["h"]); out += _digits("(ite (= (mod %s 12) 0) 12 (mod %s 12))" % (f("h"), f("h")), 2)
        elif d == "p":
            _need(ty, ["h"]); out += [ite("(< %s 12)" % f("h"), "65", "80"), "77"]
        elif d == "M":
            _need(ty, ["mi"]); out += _digits(f("mi"), 2)
        elif d == "S":
            _need(ty, ["s"]); out += _digits(f("s"), 2)
        elif d == "T":
            _need(ty, ["h", "mi", "s"]); out += _digits(f("h"), 2) + ["58"] + _digits(f("mi"), 2) + ["58"] + _digits(f("s"), 2)
        elif d == "R":
            _need(ty, ["h", "mi"]); out += _digits(f("h"), 2) + ["58"] + _digits(f("mi"), 2)
        elif d == "f":
            _need(ty, ["ns"]); out += _digits(f("ns"), 9)
        elif d in ("3f", "6f", "9f", ".3f", ".6f", ".9f"):
            _need(ty, ["ns"])
            w = int(d[-2])
            out += (["46"] if d[0] == "." else []) + _digits(f("ns"), 9)[:w]
        elif d == ".f":
            _need(ty, ["ns"])
            ns = f("ns")
            zero = "(= %s 0)" % ns
            dg = _digits(ns, 9)
            ms = land(["(= %s 48)" % x for x in dg[3:]])
            us = land(["(= %s 48)" % x for x in dg[6:]])
            out.append(ite(zero, END, "46"))
            out += [ite(zero, END, x) for x in dg[:3]]
            out += [ite(lor([zero, ms]), END, x) for x in dg[3:6]]
            out += [ite(lor([zero, ms, us]), END, x) for x in dg[6:9]]
            variable_seen = True
        else:
            raise mir.NotTranslatable("format item %%%s has no model" % d)
    return out


def field_decls(ty, sfx):
    """declarations and validity (ranges, month lengths, leap years) of the fields of one value"""
    ds, side = [], []
    for n in FIELDS[ty]:
        lo, hi = RANGES[n]
        ds.append("(declare-const %s%s Int)" % (n, sfx))
        side.append("(and (<= %d %s%s) (<= %s%s %d))" % (lo, n, sfx, n, sfx, hi))
        w = WIDTH[n]
        for k in range(w):
            ds.append("(declare-const %s%s_d%d Int)" % (n, sfx, k))
            side.append("(and (<= 0 %s%s_d%d) (<= %s%s_d%d 9))" % (n, sfx, k, n, sfx, k))
        side.append("(= %s%s (+ %s))" % (n, sfx, " ".join("(* %d %s%s_d%d)" % (10 ** k, n, sfx, k) for k in range(w))))
    if "d" in FIELDS[ty]:
        y, mo, d = "y" + sfx, "mo" + sfx, "d" + sfx
        leap = "(and (= (mod %s 4) 0) (or (not (= (mod %s 100) 0)) (= (mod %s 400) 0)))" % (y, y, y)
        side.append("(=> (or (= %s 4) (= %s 6) (= %s 9) (= %s 11)) (<= %s 30))" % (mo, mo, mo, mo, d))
        side.append("(=> (= %s 2) (<= %s (ite %s 29 28)))" % (mo, d, leap))
    return ds, side


def tuple_lt(xs, ys):
    alts = []
    for i in range(len(xs)):
        alts.append(land(["(= %s %s)" % (a, b) for a, b in zip(xs[:i], ys[:i])] + ["(< %s %s)" % (xs[i], ys[i])]))
    return lor(alts)


def pad(xs, n):
    return xs + [END] * (n - len(xs))


def model_fields(model, ty, sfx):
    return {n: int(model[n + sfx]) for n in FIELDS[ty]}


def to_num(ty, fl):
    """field values -> the driver's numeric encoding of the value (codec.rs: days from CE, ns of day, days * 86400e9 + ns)"""
    import datetime
    if ty == "NaiveDate":
        return datetime.date(fl["y"], fl["mo"], fl["d"]).toordinal()
    t = (fl["h"] * 3600 + fl["mi"] * 60 + fl["s"]) * 1000000000 + fl["ns"]
    if ty == "NaiveTime":
        return t
    return datetime.date(fl["y"], fl["mo"], fl["d"]).toordinal() * 86400 * 1000000000 + t


def py_render(chars):
    return "".join(chr(c) for c in chars if c >= 0)
