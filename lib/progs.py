"""Catalogue of schemas and SQL programs for the relational checks (engine S)."""
import random
import driver
from driver import t_int, t_float, t_bool, t_opt


def f(name, dt, constraint=None):
    return dict(name=name, dt=dt, constraint=constraint)


def catalogue(K):
    """two tables with sizes declared [0, K] (so that every database of <= K rows conforms)"""
    return [
        dict(name="t", size=[0, K], fields=[f("id", t_int((0, 100)), "Unique"), f("a", t_int((0, 10))), f("b", t_opt(t_float((-5.0, 5.0)))), f("c", t_int((1, 1), (2, 2), (3, 3))),
                                            f("g", t_int((-3, 3))), f("k", t_int((0, 50)), "Unique"), f("n", t_opt(t_int((0, 9))), "Unique")]),
        dict(name="w", size=[0, 1], fields=[f("id", t_int((0, 100)), "PrimaryKey"), f("y", t_float((0.0, 1.0)))]),
        dict(name="u", size=[0, K], fields=[f("id", t_int((0, 100)), "PrimaryKey"), f("x", t_float((0.0, 10.0))), f("d", t_opt(t_int((-3, 3)))), f("a", t_int((5, 20))), f("k", t_int((0, 50)), "Unique"),
                                            f("tid", t_int((0, 100)), "ForeignKey")]),
    ]


FIXED = [
    "SELECT a, b FROM t WHERE a > 3",
    "SELECT a + 1 AS x, b * 2 AS y, a * g AS z FROM t",
    "SELECT a - g AS x FROM t WHERE g < 0 AND a >= 2",
    "SELECT a, count(b) AS n, sum(b) AS s, avg(b) AS m FROM t GROUP BY a",
    "SELECT c, min(a) AS lo, max(a) AS hi, sum(a) AS s FROM t GROUP BY c",
    "SELECT count(*) AS n, sum(a) AS s, avg(a) AS m FROM t",
    "SELECT sum(c) AS s, count(c) AS n FROM t",
    "SELECT a, g, count(*) AS n FROM t GROUP BY a, g",
    "SELECT t.a AS ta, u.x AS ux FROM t JOIN u ON t.id = u.id",
    "SELECT t.a AS ta, u.x AS ux FROM t LEFT JOIN u ON t.id = u.id",
    "SELECT t.a AS ta, u.x AS ux FROM t RIGHT JOIN u ON t.id = u.id",
    "SELECT t.a AS ta, u.x AS ux FROM t FULL JOIN u ON t.id = u.id",
    "SELECT t.a AS ta, u.x AS ux FROM t CROSS JOIN u",
    "SELECT t.a AS ta, u.d AS ud FROM t JOIN u ON t.a = u.a",
    "SELECT t.g AS tg, u.d AS ud FROM t LEFT JOIN u ON t.g = u.d",
    "SELECT t.g AS tg, u.d AS ud FROM t JOIN u ON t.g = u.d AND t.a > 3",
    "SELECT t.id AS i, u.x AS ux FROM t JOIN u ON t.id = u.id WHERE u.x > 2",
    "SELECT a FROM t UNION SELECT a FROM u",
    "SELECT a FROM t INTERSECT SELECT a FROM u",
    "SELECT a FROM t EXCEPT SELECT a FROM u",
    "SELECT a FROM t LIMIT 1",
    "SELECT a, g FROM t ORDER BY g LIMIT 2 OFFSET 1",
    "SELECT a FROM t LIMIT 5 OFFSET 1",
    "SELECT a FROM t LIMIT 1 OFFSET 1",
    "SELECT a, g FROM t ORDER BY a DESC LIMIT 1 OFFSET 1",
    "SELECT DISTINCT a FROM t",
    "SELECT DISTINCT c, g FROM t",
    "SELECT CASE WHEN a > 5 THEN a ELSE g END AS v FROM t",
    "SELECT COALESCE(b, 0) AS v FROM t",
    "SELECT a FROM t WHERE b IS NULL",
    "SELECT a FROM t WHERE c IN (1, 3)",
    "SELECT a / c AS q FROM t",
    "SELECT x / 2 AS h FROM u WHERE x > 1",
    "SELECT a, s FROM (SELECT a, sum(g) AS s FROM t GROUP BY a) AS z WHERE s > 0",
    "SELECT count(*) AS n FROM (SELECT a FROM t WHERE a > 3) AS z",
    "SELECT id, count(*) AS n FROM t GROUP BY id",
    "SELECT t.id AS i, count(*) AS n FROM t JOIN u ON t.id = u.id GROUP BY t.id",
    "SELECT a, count(DISTINCT g) AS n, sum(DISTINCT g) AS s FROM t GROUP BY a",
    "SELECT abs(g) AS v, -a AS w FROM t",
    "SELECT greatest(a, g) AS v, least(a, g) AS w FROM t",
    "SELECT a FROM t WHERE NOT (a > 3 OR g < 0)",
    # a smaller table (declared size [0,1]) on either side of joins over keys that are unique on both sides
    "SELECT t.a AS ta, w.y AS wy FROM t LEFT JOIN w ON t.id = w.id",
    "SELECT t.a AS ta, w.y AS wy FROM w RIGHT JOIN t ON t.id = w.id",
    "SELECT t.a AS ta, w.y AS wy FROM t FULL JOIN w ON t.id = w.id",
    "SELECT t.a AS ta, w.y AS wy FROM t JOIN w ON t.id = w.id",
    "SELECT u.x AS ux, w.y AS wy FROM w LEFT JOIN u ON u.id = w.id",
    # grouping by a UNIQUE but nullable column (several NULLs form one group), by keys, arithmetic on unique columns
    "SELECT n, sum(a) AS s, count(*) AS c FROM t GROUP BY n",
    "SELECT n, count(a) AS c, max(g) AS m FROM t WHERE a > 1 GROUP BY n",
    "SELECT k, sum(a) AS s, count(*) AS c FROM t GROUP BY k",
    "SELECT u.d AS d, sum(t.a) AS s FROM t LEFT JOIN u ON t.id = u.id GROUP BY u.d",
    "SELECT id * 0 AS z FROM t",
    "SELECT id + 1 AS z, k - 3 AS y, id * 2 AS x FROM t",
    "SELECT id * c AS z, k * g AS y FROM t",
    "SELECT -id AS z, 0 - k AS y FROM t",
    "SELECT n AS z FROM t",
    # a column declared FOREIGN KEY (a constraint that says nothing about distinctness) as grouping key, projection, join key
    "SELECT tid, d, count(*) AS n FROM u GROUP BY tid, d",
    "SELECT tid, count(*) AS n FROM u GROUP BY tid",
    "SELECT tid AS z, a FROM u WHERE a > 6",
    "SELECT t.id AS ti, u.tid AS ut FROM t JOIN u ON t.id = u.tid",
    "SELECT t.id AS ti, u.tid AS ut, u.id AS ui FROM t LEFT JOIN u ON t.id = u.tid",
]


def random_program(rnd):
    cols_t = ["a", "g", "c", "id"]
    num = lambda: rnd.choice(["a", "g", "c", "b", "a + g", "a * c", "a - c", "g * g", "b * 2", "a + 1", "abs(g)", "greatest(a, g)", "least(c, g)",
                              "id * %d" % rnd.randint(0, 2), "k + %d" % rnd.randint(0, 3), "id - k", "n", "n * %d" % rnd.randint(0, 1), "id %% %d" % rnd.randint(1, 3)])
    cond = lambda: rnd.choice(["a > %d" % rnd.randint(0, 10), "g < %d" % rnd.randint(-3, 3), "c = %d" % rnd.randint(1, 3), "b > %s" % rnd.choice(["0", "1.5", "-2"]), "a >= g", "b IS NULL",
                               "c IN (1, 2)", "a + g > 4", "NOT (a > 5)", "a <> %d" % rnd.randint(0, 10)])
    where = lambda: (" WHERE " + (cond() if rnd.random() < 0.6 else "%s %s %s" % (cond(), rnd.choice(["AND", "OR"]), cond()))) if rnd.random() < 0.6 else ""
    r = rnd.random()
    if r < 0.3:
        n = rnd.choice([1, 2, 3])
        items = ", ".join("%s AS v%d" % (num(), i) for i in range(n))
        q = "SELECT %s FROM t%s" % (items, where())
        if rnd.random() < 0.2:
            q += " LIMIT %d" % rnd.randint(0, 3) + (" OFFSET %d" % rnd.randint(0, 2) if rnd.random() < 0.5 else "")
        return q
    if r < 0.6:
        keys = rnd.sample(["a", "g", "c", "n", "k", "id"], rnd.choice([0, 1, 1, 2]))
        aggs = []
        for i in range(rnd.choice([1, 2, 3])):
            fn_ = rnd.choice(["sum", "count", "avg", "min", "max"])
            arg = rnd.choice(["a", "g", "b", "c"])
            aggs.append("%s(%s) AS r%d" % (fn_, arg, i))
        q = "SELECT %s FROM t%s" % (", ".join(keys + aggs), where())
        if keys:
            q += " GROUP BY " + ", ".join(keys)
        return q
    if r < 0.85:
        kind = rnd.choice(["JOIN", "LEFT JOIN", "RIGHT JOIN", "FULL JOIN", "JOIN"])
        on = rnd.choice(["t.id = u.id", "t.a = u.a", "t.g = u.d", "t.id = u.id AND t.a > %d" % rnd.randint(0, 8), "t.a < u.a", "t.c = u.d OR t.g = u.d"])
        sel = ", ".join(rnd.sample(["t.a AS ta", "t.g AS tg", "t.id AS ti", "u.x AS ux", "u.d AS ud", "u.id AS ui", "u.a AS ua", "t.b AS tb"], rnd.choice([1, 2, 3])))
        return "SELECT %s FROM t %s u ON %s" % (sel, kind, on)
    op = rnd.choice(["UNION", "INTERSECT", "EXCEPT", "UNION"])
    return "SELECT a FROM t%s %s SELECT a FROM u" % (where(), op)


def programs(tier, seed):
    rnd = random.Random(seed * 31337 + 7)
    n = 25 if tier == "quick" else 300
    out = list(FIXED)
    seen = set(out)
    while len(out) < len(FIXED) + n:
        p = random_program(rnd)
        if p not in seen:
            seen.add(p)
            out.append(p)
    return out
