"""SQLite replay of counterexample databases: tables are created from the driver's table JSON, filled with the
model's rows, and the SQL the library itself renders (SQLite translator) is executed."""
import hashlib, math, sqlite3


def text_of(code):
    return "s%d" % code


def connect(random_value=None):
    con = sqlite3.connect(":memory:")
    con.create_function("md5", 1, lambda x: None if x is None else hashlib.md5(str(x).encode()).hexdigest())
    con.create_function("greatest", -1, lambda *a: None if any(x is None for x in a) else max(a))
    con.create_function("least", -1, lambda *a: None if any(x is None for x in a) else min(a))
    class Mean:
        def __init__(self):
            self.s, self.n = 0.0, 0
        def step(self, v):
            if v is not None:
                self.s += v
                self.n += 1
        def finalize(self):
            return None if self.n == 0 else self.s / self.n
    class Moment:
        sample, root = True, False
        def __init__(self):
            self.v = []
        def step(self, x):
            if x is not None:
                self.v.append(float(x))
        def finalize(self):
            n = len(self.v)
            if n == 0 or (self.sample and n < 2):
                return None
            m = sum(self.v) / n
            ss = sum((x - m) ** 2 for x in self.v)
            r = ss / (n - 1 if self.sample else n)
            return math.sqrt(r) if self.root else r
    def mk(sample, root):
        return type("M", (Moment,), dict(sample=sample, root=root))
    class First:
        def __init__(self):
            self.v, self.seen = None, False
        def step(self, x):
            if not self.seen:
                self.v, self.seen = x, True
        def finalize(self):
            return self.v
    class Last:
        def __init__(self):
            self.v = None
        def step(self, x):
            self.v = x
        def finalize(self):
            return self.v
    con.create_aggregate("first", 1, First)
    con.create_aggregate("last", 1, Last)
    con.create_aggregate("mean", 1, Mean)
    for nm, (sa, ro) in dict(variance=(True, False), var_samp=(True, False), var_pop=(False, False), var=(True, False), stddev=(True, True), stddev_samp=(True, True), stddev_pop=(False, True), std=(True, True)).items():
        con.create_aggregate(nm, 1, mk(sa, ro))
    if random_value is not None:
        con.create_function("random", 0, lambda: random_value)
        if random_value == 0.25:
            # neutralised noise: cos(2 pi 0.25) is 6e-17 in floats, and a sigma of 1e308 (unbounded sensitivity) turns that
            # into 1e292; the Box-Muller cosine is the only cosine in the rendered DP queries: make it exactly 0
            con.create_function("cos", 1, lambda x: 0.0)
    return con


def sql_type(dt):
    b = dt["of"] if dt["t"] == "Optional" else dt
    return {"Integer": "INTEGER", "Float": "REAL", "Boolean": "BOOLEAN", "Text": "TEXT", "Id": "TEXT"}.get(b["t"], "TEXT")


def qident(path):
    return ".".join('"%s"' % p for p in path)


def load(con, tables, db):
    """tables: {path tuple: table json}; db: {path tuple: [row dict]}"""
    for path, tj in tables.items():
        name = '"%s"' % path[-1]
        cols = ", ".join('"%s" %s' % (f["name"], sql_type(f["dt"])) for f in tj["schema"])
        con.execute("CREATE TABLE %s (%s)" % (name, cols))
        for row in db.get(path, []):
            vals = []
            for f in tj["schema"]:
                v = row[f["name"]]
                b = f["dt"]["of"] if f["dt"]["t"] == "Optional" else f["dt"]
                if v is not None and b["t"] in ("Text", "Id"):
                    v = text_of(v)
                if isinstance(v, bool):
                    v = int(v)
                vals.append(v)
            con.execute("INSERT INTO %s VALUES (%s)" % (name, ", ".join("?" for _ in vals)), vals)


def run(con, sql):
    cur = con.execute(sql)
    names = [d[0] for d in cur.description]
    return names, cur.fetchall()


def in_type(dt, v):
    """python value (from SQLite) belongs to the declared driver data type"""
    if dt["t"] == "Optional":
        return v is None or in_type(dt["of"], v)
    if v is None:
        return False
    t = dt["t"]
    if t == "Any":
        return True
    if t == "Null":
        return False
    import struct
    if t == "Integer":
        if isinstance(v, float):
            if v != int(v):
                return False
            v = int(v)
        return any(int(lo) <= v <= int(hi) for lo, hi in dt["iv"])
    if t == "Float":
        f = lambda s: struct.unpack("<d", struct.pack("<Q", int(s, 16)))[0]
        return any(f(lo) - 1e-9 * max(1.0, abs(f(lo))) <= v <= f(hi) + 1e-9 * max(1.0, abs(f(hi))) for lo, hi in dt["iv"])
    if t == "Boolean":
        return any(int(lo) <= int(v) <= int(hi) for lo, hi in dt["iv"])
    return True
