"""Engine S (SymRel): bounded symbolic evaluation of qrlew's Relation IR (driver JSON) over a symbolic database.

A row is (present term, {column name: Cell}); a relation is a list of rows (fixed length, presence symbolic) plus its
column order. Base tables have K row slots whose cells are solver variables constrained by the declared DataType and
constraints. Scalar expressions are evaluated by lib/exprsem.py (SQL NULL semantics, MIR-translated kernels, mode
'math': Int / Real - float rounding is abstracted away, stated). Aggregates follow SQL (NULLs skipped, empty SUM = NULL).
"""
import fractions, itertools, json, re
import kern, smt, exprsem
from exprsem import Cell, Unsupported
from smt import land, lor, lnot, ite

TYMAP = {"Integer": "i64", "Float": "f64", "Boolean": "bool", "Text": "str", "Id": "str"}


def base_dt(dt):
    return dt["of"] if dt["t"] == "Optional" else dt


def col_ty(dt):
    b = base_dt(dt)
    if b["t"] not in TYMAP:
        raise Unsupported("column type " + b["t"])
    return TYMAP[b["t"]]


def sort_of(ty):
    return {"i64": "Int", "f64": "Real", "bool": "Bool", "str": "Int"}[ty]


def zero(ty):
    return {"i64": "0", "f64": "0.0", "bool": "false", "str": "0"}[ty]


class Row:
    __slots__ = ("p", "cells")

    def __init__(self, p, cells):
        self.p, self.cells = p, cells


class Rel:
    def __init__(self, cols, rows, name=""):
        self.cols, self.rows, self.name = cols, rows, name


class Ctx:
    def __init__(self, fns):
        self.fns = fns
        self.bank = exprsem.Bank(fns, "math")
        self.ev = exprsem.Evaluator(self.bank, "sql")
        self.decls = []
        # one ordered declaration list shared with the expression evaluator (definitions may refer to its fresh symbols)
        self.bank.decls = self.decls
        self.ev.extra_decls = self.decls
        self.bank.namer = lambda term, ty: self.name(term, ty if ty in ("i64", "f64", "bool") else "i64", "a")
        self.asserts = []
        self.n = 0
        self.cache = {}
        self.text_codes = self.ev.str_codes

    def new(self, ty, hint):
        self.n += 1
        name = "%s_%d" % (re.sub(r"[^A-Za-z0-9_]", "_", hint), self.n)
        self.decls.append("(declare-const %s %s)" % (name, sort_of(ty)))
        return name

    def all_decls(self):
        return self.decls

    def name(self, term, ty, hint="t"):
        """give a long term a name (define-fun): keeps the script linear in the size of the relation DAG"""
        if len(term) < 48:
            return term
        self.n += 1
        nm = "%s_%d" % (re.sub(r"[^A-Za-z0-9_]", "_", hint)[:24], self.n)
        self.decls.append("(define-fun %s () %s %s)" % (nm, sort_of(ty), term))
        return nm

    def name_cell(self, c, hint="c"):
        return Cell(self.name(c.n, "bool", hint + "_n"), c.ty, self.name(c.t, c.ty, hint), c.opt)

    def all_asserts(self):
        return self.asserts + self.ev.side_constraints()

    def script(self, extra):
        return "\n".join(self.all_decls() + ["(assert %s)" % a for a in self.all_asserts() + list(extra)])


def member_math(dt, cell):
    """cell value (non null) belongs to the base data type"""
    b = base_dt(dt)
    t = b["t"]
    if t in ("Integer", "Float", "Boolean"):
        return kern.member(b, cell.t, "math")
    if t == "Text":
        return "true"  # text ranges are outside the claim (codes, equality only)
    return "true"


# --------------------------------------------------------------------------------------------- database


def make_table(ctx, table, K, tag="", fixed=None, in_range=True):
    """symbolic contents of a base table given its (driver) JSON: name, path, schema, size.
    fixed: {"present": [bool]*K, (column, slot): python value or None} - a concrete key layout; everything else symbolic.
    in_range=False leaves the values unconstrained by the declared type (dynamic clipping must not rely on it)."""
    fixed = fixed or {}
    rows = []
    cols = [f["name"] for f in table["schema"]]
    for i in range(K):
        if "present" in fixed:
            p = "true" if fixed["present"][i] else "false"
        else:
            p = ctx.new("bool", "%s%s_p%d" % (tag, table["name"], i))
        cells = {}
        for f in table["schema"]:
            ty = col_ty(f["dt"])
            if (f["name"], i) in fixed:
                fv = fixed[(f["name"], i)]
                if fv is None:
                    cells[f["name"]] = Cell("true", ty, zero(ty), True)
                else:
                    lit = ("true" if fv else "false") if ty == "bool" else (smt.real_lit(fractions.Fraction(fv)) if ty == "f64" else smt.int_lit(int(fv)))
                    cells[f["name"]] = Cell("false", ty, lit, f["dt"]["t"] == "Optional")
                continue
            v = ctx.new(ty, "%s%s_%s%d" % (tag, table["name"], f["name"], i))
            if f["dt"]["t"] == "Optional":
                n = ctx.new("bool", "%s%s_%s%d_null" % (tag, table["name"], f["name"], i))
            else:
                n = "false"
            c = Cell(n, ty, v, f["dt"]["t"] == "Optional")
            cells[f["name"]] = c
            m = member_math(f["dt"], c) if in_range else "true"
            if m != "true":
                ctx.asserts.append(lor([n, m]) if n != "false" else m)
        rows.append(Row(p, cells))
    # declared size
    cnt = "(+ 0 %s)" % " ".join("(ite %s 1 0)" % r.p for r in rows)
    szs = []
    for lo, hi in table["size"]:
        szs.append("(and (<= %s %s) (<= %s %s))" % (lo, cnt, cnt, hi))
    ctx.asserts.append(lor(szs))
    # constraints
    for f in table["schema"]:
        if f.get("constraint") in ("Unique", "PrimaryKey"):
            for a, b in itertools.combinations(rows, 2):
                ca, cb = a.cells[f["name"]], b.cells[f["name"]]
                ctx.asserts.append("(=> %s (not (= %s %s)))" % (land([a.p, b.p, lnot(ca.n), lnot(cb.n)]), ca.t, cb.t))
            if f.get("constraint") == "PrimaryKey":
                for a in rows:
                    ctx.asserts.append("(=> %s %s)" % (a.p, lnot(a.cells[f["name"]].n)))
    return Rel(cols, rows, table["name"])


def tables_of(rel, out=None):
    out = {} if out is None else out
    if rel["k"] == "Table":
        out[tuple(rel["path"])] = rel
    for k in ("input", "left", "right"):
        if k in rel:
            tables_of(rel[k], out)
    return out


# --------------------------------------------------------------------------------------------- operators


_LIT = re.compile(r"^(?:-?\d+(?:\.\d+)?|\(- \d+(?:\.\d+)?\)|true|false)$")


def term_eq(x, y):
    """(= x y) with constant folding on literals (concrete key layouts make most key comparisons decidable)"""
    if x == y:
        return "true"
    if _LIT.match(x) and _LIT.match(y):
        return "false"   # distinct literal spellings of the same sort denote distinct values (literals are canonical)
    return "(= %s %s)" % (x, y)


def cell_eq(a, b):
    """SQL grouping equality: NULLs are equal to each other"""
    return lor([land([a.n, b.n]), land([lnot(a.n), lnot(b.n), term_eq(a.t, b.t)])])


def eval_rel(ctx, rel, db, memo=None):
    memo = {} if memo is None else memo
    key = rel["name"]
    if key in memo:
        return memo[key]
    k = rel["k"]
    if k == "Table":
        r = db[tuple(rel["path"])]
    elif k == "Map":
        r = eval_map(ctx, rel, eval_rel(ctx, rel["input"], db, memo))
    elif k == "Reduce":
        r = eval_reduce(ctx, rel, eval_rel(ctx, rel["input"], db, memo))
    elif k == "Join":
        r = eval_join(ctx, rel, eval_rel(ctx, rel["left"], db, memo), eval_rel(ctx, rel["right"], db, memo))
    elif k == "Set":
        r = eval_set(ctx, rel, eval_rel(ctx, rel["left"], db, memo), eval_rel(ctx, rel["right"], db, memo))
    elif k == "Values":
        r = eval_values(ctx, rel)
    else:
        raise Unsupported("relation kind " + k)
    memo[key] = r
    return r


def prune(rows):
    """drop row slots that are statically absent"""
    return [r for r in rows if r.p != "false"]


def env_of(row):
    return {(n,): c for n, c in row.cells.items()}


def eval_map(ctx, rel, inp):
    rows = []
    for i, row in enumerate(inp.rows):
        env = env_of(row)
        rk = "%s#%d" % (rel["name"], i)
        p = row.p
        if rel["filter"] is not None:
            f = ctx.ev.eval(rel["filter"], env, rk)
            if f.ty != "bool":
                raise Unsupported("non boolean filter")
            p = ctx.name(land([p, lnot(f.n), f.t]), "bool", rel["name"] + "_p")
        cells = {}
        for name, e in rel["projection"]:
            cells[name] = ctx.name_cell(ctx.ev.eval(e, env, rk), name)
        rows.append(Row(p, cells))
    if rel.get("limit") is not None or rel.get("offset") is not None:
        rows = limit_offset(ctx, rel, inp, rows)
    return Rel([n for n, _ in rel["projection"]], prune(rows), rel["name"])


def limit_offset(ctx, rel, inp, rows):
    """keep rows whose rank (number of present rows ordered before) lies in [offset, offset+limit).
    With an ORDER BY the rank follows the keys (ties assumed absent); without, any consistent order may be chosen by the
    engine: slot order is used, which is one of them (the properties checked under LIMIT are order independent)."""
    lim, off = rel.get("limit"), rel.get("offset") or 0
    keys = None
    if rel.get("order_by"):
        keys = []
        for i, row in enumerate(inp.rows):
            env = env_of(row)
            keys.append([(ctx.ev.eval(e, env, "%s#%d" % (rel["name"], i)), asc) for e, asc in rel["order_by"]])
    out = []
    for i, r in enumerate(rows):
        before = []
        for j, s in enumerate(rows):
            if i == j:
                continue
            if keys is None:
                prec = "true" if j < i else "false"
            else:
                prec = lex_before(keys[j], keys[i])
                ctx.asserts.append("(=> %s (not %s))" % (land([r.p, s.p]), keys_equal(keys[i], keys[j])))
            before.append("(ite %s 1 0)" % land([s.p, prec]))
        rank = "(+ 0 %s)" % " ".join(before) if before else "0"
        cond = ["(>= %s %d)" % (rank, off)]
        if lim is not None:
            cond.append("(< %s %d)" % (rank, off + lim))
        out.append(Row(ctx.name(land([r.p] + cond), "bool", "lim"), r.cells))
    return out


def keys_equal(a, b):
    return land([cell_eq(x[0], y[0]) for x, y in zip(a, b)])


def lex_before(a, b):
    """a sorts strictly before b (NULLs first when ascending, as SQLite)"""
    alts, eq_prefix = [], []
    for (x, asc), (y, _) in zip(a, b):
        lt = "(< %s %s)" % (x.t, y.t) if x.ty != "bool" else land([lnot(x.t), y.t])
        xy = lor([land([x.n, lnot(y.n)]), land([lnot(x.n), lnot(y.n), lt])])
        gt = "(> %s %s)" % (x.t, y.t) if x.ty != "bool" else land([x.t, lnot(y.t)])
        yx = lor([land([y.n, lnot(x.n)]), land([lnot(x.n), lnot(y.n), gt])])
        alts.append(land(eq_prefix + [xy if asc else yx]))
        eq_prefix.append(cell_eq(x, y))
    return lor(alts)


def agg_arg(e):
    if e["e"] != "Aggregate":
        raise Unsupported("aggregate column of kind " + e["e"])
    a = e["arg"]
    if a["e"] != "Column":
        raise Unsupported("aggregate over a non column")
    return e["a"], a["path"][-1]


def eval_reduce(ctx, rel, inp):
    gb = [p[-1] for p in rel["group_by"]]
    rows_in = inp.rows
    out = []
    reps = range(len(rows_in)) if gb else [None]
    for i in reps:
        if i is None:
            members = [r.p for r in rows_in]
            p_out = "true"
        else:
            ri = rows_in[i]
            same = lambda j: land([cell_eq(rows_in[j].cells[g], ri.cells[g]) for g in gb])
            members = [ctx.name(land([rows_in[j].p, same(j)]), "bool", "mem") for j in range(len(rows_in))]
            earlier = members[:i]
            p_out = ctx.name(land([ri.p] + [lnot(e) for e in earlier]), "bool", "rep")
        if p_out == "false":
            continue
        cells = {}
        for name, e in rel["aggregate"]:
            agg, colname = agg_arg(e)
            cells[name] = ctx.name_cell(aggregate(ctx, agg, [r.cells[colname] for r in rows_in], members, rows_in[i].cells[colname] if i is not None else None, "%s_%s_%s" % (rel["name"], name, i)), name)
        if p_out == "false":
            continue
        out.append(Row(p_out, cells))
    return Rel([n for n, _ in rel["aggregate"]], out, rel["name"])


def realv(c):
    return "(to_real %s)" % c.t if c.ty == "i64" else c.t


def aggregate(ctx, agg, cells, members, rep_cell, hint):
    ty = cells[0].ty if cells else "i64"
    live = [land([m, lnot(c.n)]) for m, c in zip(members, cells)]
    cnt = "(+ 0 %s)" % " ".join("(ite %s 1 0)" % l for l in live) if live else "0"
    if agg in ("First", "Last"):
        if rep_cell is not None:
            return rep_cell   # the compiler only uses First/Last on group-by columns: every member agrees with the representative
        # ungrouped: value of the first / last present row
        order = list(zip(members, cells)) if agg == "First" else list(reversed(list(zip(members, cells))))
        n, t = "true", zero(ty)
        for m, c in reversed(order):
            n, t = ite(m, c.n, n), ite(m, c.t, t)
        return Cell(n, ty, t)
    if agg == "Count":
        return Cell("false", "i64", cnt)
    if agg == "Sum":
        if ty not in ("i64", "f64"):
            raise Unsupported("sum of " + ty)
        s = "(+ %s %s)" % (zero(ty), " ".join(ite(l, c.t, zero(ty)) for l, c in zip(live, cells))) if live else zero(ty)
        return Cell("(= %s 0)" % cnt, ty, s)
    if agg == "Mean":
        s = "(+ 0.0 %s)" % " ".join(ite(l, realv(c), "0.0") for l, c in zip(live, cells)) if live else "0.0"
        q = ctx.new("f64", hint + "_mean")
        ctx.asserts.append("(=> (> %s 0) (= (* %s (to_real %s)) %s))" % (cnt, q, cnt, s))
        return Cell("(= %s 0)" % cnt, "f64", q)
    if agg in ("Min", "Max"):
        q = ctx.new(ty, hint + "_" + agg.lower())
        cmp_ = "<=" if agg == "Min" else ">="
        if ty == "bool":
            raise Unsupported("min/max of booleans")
        for l, c in zip(live, cells):
            ctx.asserts.append("(=> %s (%s %s %s))" % (l, cmp_, q, c.t))
        ctx.asserts.append("(=> (> %s 0) %s)" % (cnt, lor([land([l, "(= %s %s)" % (q, c.t)]) for l, c in zip(live, cells)])))
        return Cell("(= %s 0)" % cnt, ty, q)
    if agg in ("CountDistinct", "SumDistinct", "MeanDistinct"):
        firsts = []
        for i, (l, c) in enumerate(zip(live, cells)):
            dup = [land([live[j], "(= %s %s)" % (cells[j].t, c.t)]) for j in range(i)]
            firsts.append(land([l] + [lnot(x) for x in dup]))
        dcnt = "(+ 0 %s)" % " ".join("(ite %s 1 0)" % f for f in firsts) if firsts else "0"
        if agg == "CountDistinct":
            return Cell("false", "i64", dcnt)
        if agg == "SumDistinct":
            s = "(+ %s %s)" % (zero(ty), " ".join(ite(f, c.t, zero(ty)) for f, c in zip(firsts, cells)))
            return Cell("(= %s 0)" % dcnt, ty, s)
        s = "(+ 0.0 %s)" % " ".join(ite(f, realv(c), "0.0") for f, c in zip(firsts, cells))
        q = ctx.new("f64", hint + "_meand")
        ctx.asserts.append("(=> (> %s 0) (= (* %s (to_real %s)) %s))" % (dcnt, q, dcnt, s))
        return Cell("(= %s 0)" % dcnt, "f64", q)
    if agg in ("Var", "Std"):
        s = "(+ 0.0 %s)" % " ".join(ite(l, realv(c), "0.0") for l, c in zip(live, cells))
        s2 = "(+ 0.0 %s)" % " ".join(ite(l, "(* %s %s)" % (realv(c), realv(c)), "0.0") for l, c in zip(live, cells))
        # both moments are exposed: population (n) and sample (n-1); which one applies is the caller's decision
        vp, vs = ctx.new("f64", hint + "_varp"), ctx.new("f64", hint + "_vars")
        n = "(to_real %s)" % cnt
        ctx.asserts.append("(=> (> %s 0) (= (* %s %s %s) (- (* %s %s) (* %s %s))))" % (cnt, vp, n, n, n, s2, s, s))
        ctx.asserts.append("(=> (> %s 1) (= (* %s %s (- %s 1.0)) (- (* %s %s) (* %s %s))))" % (cnt, vs, n, n, n, s2, s, s))
        c = Cell("(= %s 0)" % cnt, "f64", vp)
        c_extra = dict(pop=vp, sample=vs, count=cnt)
        if agg == "Std":
            sp, ss = ctx.new("f64", hint + "_stdp"), ctx.new("f64", hint + "_stds")
            ctx.asserts += ["(>= %s 0.0)" % sp, "(>= %s 0.0)" % ss, "(= (* %s %s) %s)" % (sp, sp, vp), "(=> (> %s 1) (= (* %s %s) %s))" % (cnt, ss, ss, vs)]
            c = Cell("(= %s 0)" % cnt, "f64", sp)
            c_extra = dict(pop=sp, sample=ss, count=cnt)
        ctx.cache.setdefault("moments", {})[c.t] = c_extra
        return c
    raise Unsupported("aggregate " + agg)


def null_cell(ty):
    return Cell("true", ty, zero(ty), True)


def eval_join(ctx, rel, left, right):
    kind = rel["kind"]
    fi = rel["field_inputs"]   # [out name, [_LEFT_|_RIGHT_, col]]

    def out_cells(lrow, rrow, ltys=None, rtys=None):
        cells = {}
        for name, (side, colname) in fi:
            if side == "_LEFT_":
                cells[name] = lrow.cells[colname] if lrow is not None else null_cell(left.rows[0].cells[colname].ty)
            else:
                cells[name] = rrow.cells[colname] if rrow is not None else null_cell(right.rows[0].cells[colname].ty)
        return cells

    rows = []
    match = {}
    for i, l in enumerate(left.rows):
        for j, r in enumerate(right.rows):
            if kind == "Cross" or rel["on"] is None:
                on = "true"
            else:
                env = {}
                for n, c in l.cells.items():
                    env[("_LEFT_", n)] = c
                for n, c in r.cells.items():
                    env[("_RIGHT_", n)] = c
                o = ctx.ev.eval(rel["on"], env, "%s#%d_%d" % (rel["name"], i, j))
                on = land([lnot(o.n), o.t])
            m = ctx.name(land([l.p, r.p, on]), "bool", "jm")
            match[(i, j)] = m
            rows.append(Row(m, out_cells(l, r)))
    if kind in ("LeftOuter", "FullOuter") and left.rows and right.rows:
        for i, l in enumerate(left.rows):
            none = land([lnot(match[(i, j)]) for j in range(len(right.rows))])
            rows.append(Row(ctx.name(land([l.p, none]), "bool", "lo"), out_cells(l, None)))
    if kind in ("RightOuter", "FullOuter") and left.rows and right.rows:
        for j, r in enumerate(right.rows):
            none = land([lnot(match[(i, j)]) for i in range(len(left.rows))])
            rows.append(Row(ctx.name(land([r.p, none]), "bool", "ro"), out_cells(None, r)))
    return Rel([n for n, _ in fi], prune(rows), rel["name"])


def row_eq(a, b, cols_a, cols_b):
    return land([cell_eq(a.cells[x], b.cells[y]) for x, y in zip(cols_a, cols_b)])


def eval_set(ctx, rel, left, right):
    op, q = rel["operator"], rel["quantifier"]
    cols = [f["name"] for f in rel["schema"]]
    lrows = [Row(r.p, {c: r.cells[lc] for c, lc in zip(cols, left.cols)}) for r in left.rows]
    rrows = [Row(r.p, {c: r.cells[rc] for c, rc in zip(cols, right.cols)}) for r in right.rows]
    distinct = q in ("Distinct", "None")
    if op == "Union":
        allr = lrows + rrows
        if not distinct:
            return Rel(cols, allr, rel["name"])
        out = []
        for i, r in enumerate(allr):
            dup = [land([allr[j].p, row_eq(allr[j], r, cols, cols)]) for j in range(i)]
            out.append(Row(ctx.name(land([r.p] + [lnot(x) for x in dup]), "bool", "un"), r.cells))
        return Rel(cols, out, rel["name"])
    if not distinct:
        raise Unsupported("%s ALL" % op)
    out = []
    for i, r in enumerate(lrows):
        dup = [land([lrows[j].p, row_eq(lrows[j], r, cols, cols)]) for j in range(i)]
        inr = lor([land([s.p, row_eq(s, r, cols, cols)]) for s in rrows])
        keep = inr if op == "Intersect" else lnot(inr)
        out.append(Row(ctx.name(land([r.p, keep] + [lnot(x) for x in dup]), "bool", "st"), r.cells))
    return Rel(cols, out, rel["name"])


def eval_values(ctx, rel):
    if rel.get("values") is None:
        raise Unsupported("Values relation without the hook accessor")
    name = rel["schema"][0]["name"]
    rows = []
    for v in rel["values"]:
        rows.append(Row("true", {name: ctx.ev.value_cell(v)}))
    return Rel([name], rows, rel["name"])


# --------------------------------------------------------------------------------------------- properties


def count_present(r):
    return "(+ 0 %s)" % " ".join("(ite %s 1 0)" % x.p for x in r.rows) if r.rows else "0"


def schema_violation(rel_json, r):
    """some present row has a cell outside its declared type / NULL in a non optional column"""
    bad = []
    for row in r.rows:
        for f in rel_json["schema"]:
            c = row.cells[f["name"]]
            dt = f["dt"]
            try:
                ty = col_ty(dt)
            except Unsupported:
                continue
            if dt["t"] == "Optional":
                inner = dt["of"]
                ok = lor([c.n, member_typed(inner, c)])
            else:
                ok = land([lnot(c.n), member_typed(dt, c)])
            bad.append((f["name"], land([row.p, lnot(ok)])))
    return bad


def member_typed(dt, c):
    """membership with numeric cross-variant tolerance (an int cell against a float type and vice versa)"""
    b = base_dt(dt)
    t = b["t"]
    if t == "Null":
        return "false"
    if t == "Any":
        return "true"
    if t == "Integer":
        if c.ty == "i64":
            return kern.member(b, c.t, "math")
        if c.ty == "f64":
            return land(["(= (to_real (to_int %s)) %s)" % (c.t, c.t), kern.member(b, "(to_int %s)" % c.t, "math")])
        if c.ty == "bool":
            return kern.member(b, "(ite %s 1 0)" % c.t, "math")
    if t == "Float":
        if c.ty == "f64":
            return kern.member(b, c.t, "math")
        if c.ty == "i64":
            return kern.member(b, "(to_real %s)" % c.t, "math")
        if c.ty == "bool":
            return kern.member(b, "(ite %s 1.0 0.0)" % c.t, "math")
    if t == "Boolean":
        if c.ty == "bool":
            return kern.member(b, c.t, "math")
        return "false"
    return "true"


def size_violation(rel_json, r):
    cnt = count_present(r)
    ok = lor(["(and (<= %s %s) (<= %s %s))" % (lo, cnt, cnt, hi) for lo, hi in rel_json["size"]])
    return lnot(ok), cnt


def unique_violation(rel_json, r):
    out = []
    for f in rel_json["schema"]:
        if f.get("constraint") in ("Unique", "PrimaryKey"):
            pairs = []
            for a, b in itertools.combinations(r.rows, 2):
                ca, cb = a.cells[f["name"]], b.cells[f["name"]]
                pairs.append(land([a.p, b.p, lnot(ca.n), lnot(cb.n), "(= %s %s)" % (ca.t, cb.t)]))
            if pairs:
                out.append((f["name"], lor(pairs)))
    return out


def inner_nodes(rel, out=None):
    out = [] if out is None else out
    out.append(rel)
    for k in ("input", "left", "right"):
        if k in rel:
            inner_nodes(rel[k], out)
    return out


# --------------------------------------------------------------------------------------------- models -> databases


def model_db(ctx_tables, model):
    """ctx_tables: {path: (table json, Rel)} -> {path: list of row dicts (python values / None)} for present rows"""
    db = {}
    for path, (tj, rel) in ctx_tables.items():
        rows = []
        for r in rel.rows:
            if not (r.p == "true" or model.get(r.p) is True):
                continue
            row = {}
            for f in tj["schema"]:
                c = r.cells[f["name"]]
                if c.n != "false" and model.get(c.n) is True:
                    row[f["name"]] = None
                else:
                    mv = model.get(c.t)
                    if mv is None:   # a fixed (literal) cell
                        lit = c.t.replace("(- ", "-").replace(")", "")
                        row[f["name"]] = (lit == "true") if c.ty == "bool" else (float(fractions.Fraction(lit.replace("(/ ", "").replace(" ", "/"))) if c.ty == "f64" else int(lit))
                        continue
                    if c.ty == "f64":
                        row[f["name"]] = float(fractions.Fraction(mv)) if not isinstance(mv, tuple) else 0.0
                    elif c.ty == "bool":
                        row[f["name"]] = bool(mv)
                    else:
                        row[f["name"]] = int(mv)
            rows.append(row)
        db[path] = rows
    return db


def value_names(ctx_tables):
    names = []
    for path, (tj, rel) in ctx_tables.items():
        for r in rel.rows:
            if r.p not in ("true", "false"):
                names.append(r.p)
            for c in r.cells.values():
                if re.fullmatch(r"[A-Za-z_][A-Za-z0-9_]*", c.t) and c.t not in ("true", "false"):
                    names.append(c.t)
                if c.n not in ("false", "true"):
                    names.append(c.n)
    return names
