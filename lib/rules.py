"""Engine T: the rewriting-rule tree automaton. Program corpus (SQL texts that compile to relation trees of all small
shapes), extraction through the real setters/eliminator/selector/entry points (driver op `rules`), SMT encodings of
consistent labelings."""
import itertools, json, random
import driver, smt
from smt import land, lor, lnot, ite

PROPS = ["Private", "SyntheticData", "PrivacyUnitPreserving", "DifferentiallyPrivate", "Published", "Public"]
PIDX = {p: i for i, p in enumerate(PROPS)}
CLEAN = {"Public", "Published", "DifferentiallyPrivate", "SyntheticData"}
ACCEPT_DP = {"Public", "Published", "DifferentiallyPrivate", "SyntheticData"}
ACCEPT_PUP = {"Public", "PrivacyUnitPreserving"}

# ---- catalogue -------------------------------------------------------------------------------------------

def tables():
    f = lambda n, t, c=None: dict(name=n, dt=t, constraint=c)
    return [
        dict(name="prot", size=[0, 3], fields=[f("id", driver.t_int((0, 9))), f("a", driver.t_float((0.0, 10.0)))]),
        dict(name="pub", size=[0, 3], fields=[f("id", driver.t_int((0, 9))), f("a", driver.t_float((0.0, 10.0)))]),
        # a protected table under a schema-qualified path: relation name != privacy-unit key
        dict(name="clinic_patients", path=["clinic", "patients"], size=[0, 3], fields=[f("id", driver.t_int((0, 9))), f("a", driver.t_float((0.0, 10.0)))]),
        # a protected table reached through a foreign-key path
        dict(name="child", size=[0, 3], fields=[f("id", driver.t_int((0, 9))), f("a", driver.t_float((0.0, 10.0))), f("prot_id", driver.t_int((0, 9)))]),
    ]


PRIVACY_UNIT = dict(tables=[dict(table="prot", path=[], field="id"), dict(table="patients", path=[], field="id"),
                            dict(table="child", path=[["prot_id", "prot", "id"]], field="id")])
PROTECTED_PATHS = {("prot",), ("clinic", "patients"), ("child",)}
LEAVES = {"P": "prot", "U": "pub", "Q": "clinic.patients", "C": "child"}


def sql_of(shape, counter=None):
    """shape: nested tuples ('P',) ('U',) ('map', s) ('red', s) ('redx', s) ('join', s, t) ('ljoin', s, t) ('union', s, t)
    every sub-query exposes the columns (id, a)"""
    counter = counter or itertools.count()
    k = shape[0]
    if k in LEAVES:
        return "SELECT id, a FROM %s" % LEAVES[k]
    al = lambda: "s%d" % next(counter)
    if k == "map":
        return "SELECT id, a + 1 AS a FROM (%s) AS %s WHERE a > 1" % (sql_of(shape[1], counter), al())
    if k == "red":
        return "SELECT id, sum(a) AS a FROM (%s) AS %s GROUP BY id" % (sql_of(shape[1], counter), al())
    if k == "redx":  # aggregate the DP compiler does not support (max of a non-key column)
        return "SELECT id, max(a) AS a FROM (%s) AS %s GROUP BY id" % (sql_of(shape[1], counter), al())
    if k in ("join", "ljoin"):
        l, r = al(), al()
        return "SELECT %s.id AS id, %s.a AS a FROM (%s) AS %s %s JOIN (%s) AS %s ON %s.id = %s.id" % (
            l, r, sql_of(shape[1], counter), l, "LEFT" if k == "ljoin" else "", sql_of(shape[2], counter), r, l, r)
    if k == "union":
        # operands through CTEs: a derived table inside an operand of a set operation makes the SQL front end panic
        # (visitor.rs `Visited::get(..).unwrap()`; reported by C18's pipeline sweep), which used to drop every union shape
        l, r = al(), al()
        return "WITH %s AS (%s), %s AS (%s) SELECT id, a FROM %s UNION SELECT id, a FROM %s" % (l, sql_of(shape[1], counter), r, sql_of(shape[2], counter), l, r)
    raise ValueError(k)


def shapes(max_ops, leaves=("P", "U"), unary=("map", "red", "redx"), binary=("join", "union")):
    """all shapes with at most max_ops operators"""
    by_ops = {0: [(l,) for l in leaves]}
    for n in range(1, max_ops + 1):
        cur = []
        for u in unary:
            for s in by_ops[n - 1]:
                cur.append((u, s))
        for b in binary:
            for i in range(0, n):
                for s in by_ops[i]:
                    for t in by_ops[n - 1 - i]:
                        cur.append((b, s, t))
        by_ops[n] = cur
    out = []
    for n in range(0, max_ops + 1):
        out += by_ops[n]
    return out


def corpus(tier, seed=0):
    rnd = random.Random(seed)
    base = shapes(2)
    extra = shapes(3)[len(base):]
    rnd.shuffle(extra)
    fixed = [("red", ("Q",)), ("map", ("Q",)), ("red", ("join", ("Q",), ("U",))), ("red", ("C",)), ("red", ("join", ("C",), ("P",))),
             ("red", ("ljoin", ("P",), ("U",))), ("join", ("P",), ("red", ("P",))), ("red", ("join", ("P",), ("red", ("P",)))),
             ("red", ("map", ("join", ("P",), ("red", ("map", ("P",)))))), ("union", ("red", ("P",)), ("U",)), ("red", ("red", ("P",)))]
    n_extra = 40 if tier == "quick" else 400
    if tier != "quick":
        e4 = shapes(4)[len(shapes(3)):]
        rnd.shuffle(e4)
        extra = extra + e4[:300]
    progs = base + fixed + extra[:n_extra]
    seen, out = set(), []
    for s in progs:
        if s not in seen:
            seen.add(s)
            out.append(s)
    return out


def extract(shapes_list, synthetic_opts=(False, True), workers=12, timeout=120.0):
    jobs, keys = [], []
    for s in shapes_list:
        for syn in synthetic_opts:
            jobs.append(dict(op="rules", tables=tables(), privacy_unit=PRIVACY_UNIT, dp=dict(epsilon=1.0, delta=1e-3), synthetic=syn, sql=sql_of(s), max_rewrites=40))
            keys.append((s, syn))
    ans = driver.parallel_batch(jobs, workers=workers, timeout=timeout)
    return list(zip(keys, jobs, ans))


# ---- tree helpers -----------------------------------------------------------------------------------------


def flatten(tree):
    """post-order list of nodes; each node dict gets 'idx' and 'children' (indices)"""
    out = []

    def rec(t):
        ch = [rec(c) for c in t["inputs"]]
        node = dict(kind=t["kind"], name=t["name"], rules=t.get("rules"), rule=t.get("rule"), children=ch)
        node["idx"] = len(out)
        out.append(node)
        return node["idx"]

    root = rec(tree)
    return out, root


def protected_leaf(node, job_tables):
    """independent resolution of which Table nodes are protected: by the table's declared path"""
    if node["kind"] != "Table":
        return False
    for t in job_tables:
        if t["name"] == node["name"]:
            return tuple(t.get("path") or [t["name"]]) in PROTECTED_PATHS
    return False


# ---- SMT encoding of labelings ------------------------------------------------------------------------------


def encode(nodes):
    """choice variable per node over its candidate rule list; returns (decls, consistency constraints, out terms)"""
    decls, cons, out = [], [], {}
    for n in nodes:
        i = n["idx"]
        k = len(n["rules"])
        decls.append("(declare-const c%d Int)" % i)
        cons.append("(and (<= 0 c%d) (< c%d %d))" % (i, i, k))
        # output property of the chosen rule
        t = "(- 1)"
        for j, r in reversed(list(enumerate(n["rules"]))):
            t = ite("(= c%d %d)" % (i, j), str(PIDX[r["output"]]), t)
        out[i] = t
    for n in nodes:
        i = n["idx"]
        for j, r in enumerate(n["rules"]):
            if len(r["inputs"]) != len(n["children"]):
                cons.append("(not (= c%d %d))" % (i, j))  # arity mismatch: the rule can never be consistent
                continue
            for ci, need in zip(n["children"], r["inputs"]):
                cons.append("(=> (= c%d %d) (= %s %d))" % (i, j, out[ci], PIDX[need]))
    return decls, cons, out


def in_set(term, props):
    return lor(["(= %s %d)" % (term, PIDX[p]) for p in sorted(props)])


def score_term(nodes, out, weights):
    parts = []
    for n in nodes:
        t = "0.0"
        for p in PROPS:
            t = ite("(= %s %d)" % (out[n["idx"]], PIDX[p]), smt.real_lit(__import__("fractions").Fraction(weights[p])), t)
        parts.append(t)
    return "(+ 0.0 %s)" % " ".join(parts)


def assignment_of_derivation(nodes, dtree):
    """map a derivation tree (chosen rule per node) onto choice indices of `nodes` (same shape); None if a rule is not in the list"""
    dn, _ = flatten(dtree)
    if len(dn) != len(nodes):
        return None
    asg = {}
    for n, d in zip(nodes, dn):
        if n["kind"] != d["kind"] or n["name"] != d["name"]:
            return None
        r = d["rule"]
        idx = [j for j, x in enumerate(n["rules"]) if x["inputs"] == r["inputs"] and x["output"] == r["output"] and x["param"] == r["param"]]
        if not idx:
            return None
        asg[n["idx"]] = idx[0]
    return asg
