"""Where the code under test and the scratch of a run live.

Default: the code under test is /repo (what every registered command checks). For seeded-change experiments
VERIF_REPO=<dir> points the same machinery at a scratch copy instead (tools/run_alt.sh): builds, MIR dump, evidence and
replay files then go to /verif/.work/alt and /verif/.target/alt-*, so that /repo, /verif/evidence and the regular build
caches are never touched."""
import os

VERIF = os.path.dirname(os.path.dirname(os.path.abspath(__file__)))
REPO = os.environ.get("VERIF_REPO", "/repo").rstrip("/") or "/repo"
ALT = REPO != "/repo"
WORK = os.path.join(VERIF, ".work", "alt") if ALT else os.path.join(VERIF, ".work")
EVIDENCE = os.path.join(WORK, "evidence") if ALT else os.path.join(VERIF, "evidence")
REPLAY = os.path.join(WORK, "replay") if ALT else os.path.join(VERIF, "replay")


def target(name):
    return os.path.join(VERIF, ".target", ("alt-" + name) if ALT else name)


def crate_dir(name):
    """the harness crate `name` (driver, kani) with its path dependency pointing at REPO"""
    src = os.path.join(VERIF, name)
    if not ALT:
        return src
    import shutil
    dst = os.path.join(WORK, name)
    os.makedirs(dst, exist_ok=True)
    for root, dirs, files in os.walk(src):
        rel = os.path.relpath(root, src)
        os.makedirs(os.path.join(dst, rel), exist_ok=True)
        for f in files:
            if f == "Cargo.lock":
                continue
            s, d = os.path.join(root, f), os.path.join(dst, rel, f)
            data = open(s, "rb").read()
            if f == "Cargo.toml":
                data = data.replace(b'path = "/repo"', ('path = "%s"' % REPO).encode())
            if not os.path.exists(d) or open(d, "rb").read() != data:
                open(d, "wb").write(data)
    return dst
