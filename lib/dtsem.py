"""SMT semantics of (JSON) data types for symbolic values: fresh values of a type's shape, membership with the
library's injection semantics for cross-variant pairs (conversions = MIR-translated kernels of injection.rs)."""
import re
import paths
import kern, mir, smt
from smt import land, lor, lnot, ite, fp_lit, bv64

SORT = {"bool": "Bool", "i64": "(_ BitVec 64)", "f64": "(_ FloatingPoint 11 53)"}
TY = {"Boolean": "bool", "Integer": "i64", "Float": "f64"}


class Sem:
    def __init__(self, fns):
        self.K = {}
        lines = open(paths.REPO + "/src/data_type/injection.rs").read().split("\n")
        for name in fns:
            m = re.match(r"injection::<impl at src/data_type/injection\.rs:(\d+):\d+: \d+:\d+>::value::\{closure#0\}$", name)
            if m:
                mm = re.match(r"impl Injection for Base<(\w+), (\w+)>", lines[int(m.group(1)) - 1])
                if mm and mm.group(1) in TY and mm.group(2) in TY:
                    self.K[(mm.group(1), mm.group(2))] = kern.Kernel(fns, name, "bv")
        self.n = 0
        self.decls = []

    # ---- values: ('s', variant, term) | ('opt', none_term, inner) | ('struct', [(name, val)]) | ('unit',)
    def fresh(self, T, hint="v"):
        t = T["t"]
        self.n += 1
        if t in TY:
            n = "%s%d" % (hint, self.n)
            self.decls.append("(declare-const %s %s)" % (n, SORT[TY[t]]))
            return ("s", t, n)
        if t == "Optional":
            n = "%s%d_none" % (hint, self.n)
            self.decls.append("(declare-const %s Bool)" % n)
            return ("opt", n, self.fresh(T["of"], hint))
        if t == "Struct":
            return ("struct", [(f, self.fresh(ft, hint)) for f, ft in T["fields"]])
        if t == "Unit":
            return ("unit",)
        if t == "Enum":
            # an enum value is a (label, code) pair of its own type's entries: label = index into the global label table
            n = "%s%d" % (hint, self.n)
            self.decls.append("(declare-const %s_lab Int)" % n)
            self.decls.append("(declare-const %s_code Int)" % n)
            return ("enum", n, T["vals"])
        if t in ("List", "Set"):
            # a list / set value of symbolic length 0..2 with symbolic elements of the element type's shape
            n = "%s%d_len" % (hint, self.n)
            self.decls.append("(declare-const %s Int)" % n)
            self.decls.append("(assert (and (<= 0 %s) (<= %s 2)))" % (n, n))
            return ("seq", t, n, [self.fresh(T["of"], hint), self.fresh(T["of"], hint)])
        raise ValueError("no symbolic values for type " + t)

    def convert(self, A, B, term):
        """scalar conversion A-variant -> B-variant: (defined, term) or None when the library has no injection"""
        if A == B:
            return "true", term
        if (A, B) in self.K and (A, B) in (("Boolean", "Integer"), ("Integer", "Float")):
            i = self.K[(A, B)].inst([term])
            self.decls += i["decls"]
            return "true", i["val"].t
        if (A, B) == ("Boolean", "Float"):
            d1, t1 = self.convert("Boolean", "Integer", term)
            return self.convert("Integer", "Float", t1)
        if (A, B) == ("Float", "Integer") and (A, B) in self.K:
            i = self.K[(A, B)].inst([term])
            self.decls += i["decls"]
            v = i["val"]
            some = v.variants.get(1)
            return "(= %s 1)" % v.disc, (some[0].t if some else "#x0000000000000000")
        return None

    def member(self, T, val, strict=False):
        """val (of some type's shape) belongs to T. strict: the library's literal `contains` (no cross-variant conversion)"""
        t = T["t"]
        if t == "Any":
            return "true"
        if t == "Null":
            return "false"
        if t == "Optional":
            if val[0] == "opt":
                return lor([val[1], self.member(T["of"], val[2], strict)])
            if val[0] == "unit":
                return "true"
            return "false" if strict else self.member(T["of"], val, strict)
        if val[0] == "opt":
            return "false"
        if t in TY:
            if val[0] != "s":
                return "false"
            if val[1] == t:
                extra = ["(not (fp.isNaN %s))" % val[2]] if t == "Float" else []
                return land(extra + [kern.member(T, val[2])])
            if strict:
                return "false"
            c = self.convert(val[1], t, val[2])
            if c is None:
                return "false"
            return land([c[0], kern.member(T, c[1])])
        if t == "Struct":
            if val[0] != "struct":
                return "false"
            # record width semantics, as Struct::contains: every field of the type is present in the value and belongs
            vd = dict(val[1])
            if any(f not in vd for f, _ in T["fields"]):
                return "false"
            return land([self.member(ft, vd[f], strict) for f, ft in T["fields"]])
        if t == "Unit":
            return "true" if val[0] == "unit" else "false"
        if t == "Enum":
            if val[0] != "enum":
                return "false"
            return lor(["(and (= %s_lab %d) (= %s_code %s))" % (val[1], self.label_id(lab), val[1], smt.int_lit(int(code))) for lab, code in T["vals"]])
        if t in ("List", "Set"):
            if val[0] != "seq" or val[1] != t:
                return "false"
            n = val[2]
            sizes = lor(["(and (<= %s %s) (<= %s %s))" % (lo, n, n, hi) for lo, hi in T.get("size", [])])
            elems = [lor(["(<= %s %d)" % (n, i), self.member(T["of"], e, strict)]) for i, e in enumerate(val[3])]
            distinct = []
            if t == "Set":   # the two elements of a set value differ (scalars only)
                a, b = val[3]
                if a[0] == "s" and b[0] == "s":
                    distinct = [lor(["(<= %s 1)" % n, lnot("(= %s %s)" % (a[2], b[2]))])]
            return land([sizes] + elems + distinct)
        raise ValueError("member: unsupported type " + t)

    def label_id(self, lab):
        self.labels = getattr(self, "labels", {})
        return self.labels.setdefault(lab, len(self.labels))

    def names(self, val):
        if val[0] == "s":
            return [val[2]]
        if val[0] == "enum":
            return [val[1] + "_lab", val[1] + "_code"]
        if val[0] == "opt":
            return [val[1]] + self.names(val[2])
        if val[0] == "struct":
            return [n for _, v in val[1] for n in self.names(v)]
        if val[0] == "seq":
            return [val[2]] + [n for v in val[3] for n in self.names(v)]
        return []

    def to_json(self, val, model):
        """model -> driver Value JSON"""
        if val[0] == "s":
            ty = TY[val[1]]
            return kern.value_json(ty, kern.py_of_model(ty, model[val[2]]))
        if val[0] == "opt":
            if model[val[1]] is True:
                return {"t": "Optional", "v": None}
            return {"t": "Optional", "v": self.to_json(val[2], model)}
        if val[0] == "struct":
            return {"t": "Struct", "fields": [[f, self.to_json(v, model)] for f, v in val[1]]}
        if val[0] == "enum":
            # the value carries the entries of the type it was drawn from; the real decode() reads the label from the code
            return {"t": "Enum", "v": int(model[val[1] + "_code"]), "vals": val[2]}
        if val[0] == "seq":
            k = int(model[val[2]])
            return {"t": val[1], "v": [self.to_json(v, model) for v in val[3][:k]]}
        return {"t": "Unit"}
