"""Shared plumbing of the checks: known findings, evidence files, verdict/exit protocol."""
import json, os, re, sys, time

VERIF = os.path.dirname(os.path.dirname(os.path.abspath(__file__)))
KNOWN_FILE = os.path.join(VERIF, "known_findings.txt")


def seed():
    try:
        return int(os.environ.get("VERIF_SEED", "0"))
    except ValueError:
        return 0


def load_known(pid):
    """-> dict key -> description for `known:` lines of this property (never written at run time)"""
    out = {}
    if not os.path.exists(KNOWN_FILE):
        return out
    for line in open(KNOWN_FILE):
        line = line.strip()
        m = re.match(r"^known:\s+property=(\S+)\s+key=(\S+)\s*(.*)$", line)
        if m and m.group(1) == pid:
            out[m.group(2)] = m.group(3)
    return out


class Check:
    """Collects results of one run of one property check and produces evidence + exit status.

    violation(key, what, replay): a replay-confirmed counterexample. If `key` is listed as known for this property
        a KNOWN-FINDING line is printed, otherwise a VIOLATION line and the run exits 1.
    inconclusive(why): something that prevents a verdict (undecided queries above the threshold, encoder mismatch,
        vacuity witness failure): exit 2, never a pass.
    """

    def __init__(self, pid, tier, level):
        self.pid, self.tier, self.level = pid, tier, level
        self.t0 = time.time()
        self.known = load_known(pid)
        self.known_hit = {}
        self.violations = []
        self.inconcl = []
        self.cov = {}
        self.assumptions = []
        self.notes = []
        self.samples = []
        self.queries = dict(total=0, unsat=0, sat=0, unknown=0, error=0, solver_time_s=0.0, by_solver={})
        self.undecided = []

    # -- solver bookkeeping
    def count(self, results):
        for r in results:
            self.queries["total"] += 1
            st = r["status"]
            self.queries[st] = self.queries.get(st, 0) + 1
            self.queries["solver_time_s"] += r.get("time_s", 0.0)
            s = r.get("solver") or "none"
            self.queries["by_solver"][s] = self.queries["by_solver"].get(s, 0) + 1
            if st not in ("sat", "unsat"):
                self.undecided.append(r["id"])
                print("UNDECIDED %s" % r["id"], flush=True)

    def sample(self, s, cap=12):
        if len(self.samples) < cap:
            self.samples.append(s)

    def note(self, s):
        self.notes.append(s)
        print("note: " + s, flush=True)

    def violation(self, key, what, replay=None):
        if key in self.known:
            if key not in self.known_hit:
                self.known_hit[key] = what
                print("KNOWN-FINDING: property=%s key=%s %s" % (self.pid, key, what), flush=True)
            return False
        prev = [x for x in self.violations if x["key"] == key]
        if prev:  # one VIOLATION line per role key; further instances are kept in the same replay file's count
            prev[0]["instances"] = prev[0].get("instances", 1) + 1
            return True
        import paths
        d = os.path.join(paths.REPLAY, self.pid)
        os.makedirs(d, exist_ok=True)
        path = os.path.join(d, "%s-%d.json" % (re.sub(r"[^A-Za-z0-9_.-]", "_", key)[:80], len(self.violations)))
        json.dump(dict(property=self.pid, key=key, what=what, replay=replay), open(path, "w"), indent=1, default=str)
        self.violations.append(dict(key=key, what=what, replay=path))
        print("VIOLATION property=%s replay=%s" % (self.pid, path), flush=True)
        print("  key=%s %s" % (key, what), flush=True)
        return True

    def inconclusive(self, why):
        self.inconcl.append(why)
        print("INCONCLUSIVE: " + why, flush=True)

    def finish(self, coverage, assumptions=()):
        wall = time.time() - self.t0
        q = self.queries
        q["solver_time_s"] = round(q["solver_time_s"], 3)
        decided = q["unsat"] + q["sat"]
        if q["total"] and decided < 0.9 * q["total"]:
            self.inconclusive("only %d of %d solver queries decided" % (decided, q["total"]))
        cov = dict(coverage)
        cov.setdefault("samples", self.samples or ["(none)"])
        cov["solver_queries"] = q
        cov["undecided_queries"] = self.undecided[:50]
        cov["known_findings_hit"] = self.known_hit
        cov["known_findings_listed_not_hit"] = sorted(set(self.known) - set(self.known_hit))
        cov["inconclusive"] = self.inconcl
        cov["notes"] = self.notes
        ev = dict(property_id=self.pid, tier=self.tier, seed=seed(), level=self.level, coverage=cov,
                  assumptions=list(assumptions) + self.assumptions, wall_s=round(wall, 2), violations=len(self.violations))
        import paths
        os.makedirs(paths.EVIDENCE, exist_ok=True)
        ev = json.loads(json.dumps(ev, default=str))
        try:
            import jsonschema
            jsonschema.validate(ev, json.load(open("/root/.vp/EVIDENCE.schema.json")))
        except ImportError:
            pass
        except FileNotFoundError:
            pass
        except Exception as ex:  # an evidence file that does not validate is no evidence: make it loud
            self.inconclusive("evidence does not validate against the schema: %s" % str(ex).split("\n")[0])
            ev["coverage"]["inconclusive"] = self.inconcl
        json.dump(ev, open(os.path.join(paths.EVIDENCE, self.pid + ".json"), "w"), indent=1, default=str)
        status = 1 if self.violations else (2 if self.inconcl else 0)
        print("RESULT property=%s tier=%s exit=%d queries=%d (unsat %d, sat %d, undecided %d) known=%d violations=%d wall=%.1fs" % (
            self.pid, self.tier, status, q["total"], q["unsat"], q["sat"], q["unknown"] + q["error"], len(self.known_hit), len(self.violations), wall), flush=True)
        return status


# ---------------------------------------------------------------------------- parallel query construction
_PB = {}


def _pb_call(i):
    return _PB["fn"](_PB["tasks"][i])


def parallel_build(tasks, fn, workers=14):
    """run fn(task) -> result in forked worker processes (fn and its globals, e.g. the parsed MIR, are inherited by fork)"""
    import multiprocessing as mp
    if not tasks:
        return []
    _PB["fn"], _PB["tasks"] = fn, tasks
    ctx = mp.get_context("fork")
    with ctx.Pool(min(workers, len(tasks))) as pool:
        return pool.map(_pb_call, range(len(tasks)), chunksize=1)


def budgeted(ck, tasks, build_fn, solve_fn, tier, budget_s=None, first=60):
    """Build and solve `tasks` within a wall budget (thorough tier): the task list is shuffled (VERIF_SEED), a first chunk
    measures the throughput, then as many further tasks as fit are taken. quick: everything in one round.
    Returns (build results, solver results); the coverage (tasks covered / total) is recorded on ck.budget."""
    import random
    if budget_s is None:
        budget_s = float(os.environ.get("VERIF_BUDGET_S", "2700"))
    total = len(tasks)
    if tier == "quick":
        built = parallel_build(tasks, build_fn)
        qs = [q for res in built if "queries" in res for q, _ in res["queries"]]
        ck.budget = dict(tasks_total=total, tasks_covered=total)
        return built, solve_fn(qs)
    order = list(range(total))
    random.Random(seed() + 4242).shuffle(order)
    tasks = [tasks[i] for i in order]
    built, results, done = [], [], 0
    t_start = time.time()
    chunk = min(first, total)
    while done < total:
        left = budget_s - (time.time() - ck.t0)
        if done:
            if left <= 0:
                break
            rate = (time.time() - t_start) / done
            chunk = max(1, min(total - done, int(0.85 * left / rate), done * 4))
        part = tasks[done:done + chunk]
        b = parallel_build(part, build_fn)
        qs = [q for res in b if "queries" in res for q, _ in res["queries"]]
        results += solve_fn(qs)
        built += b
        done += len(part)
        print("budget: %d of %d tasks done after %.0fs" % (done, total, time.time() - ck.t0), flush=True)
    ck.budget = dict(tasks_total=total, tasks_covered=done, budget_s=budget_s)
    if done < total:
        ck.note("wall budget of %.0fs reached: %d of %d (program, layout) tasks explored (seeded shuffle); the rest is outside this run's claim" % (budget_s, done, total))
    return built, results
