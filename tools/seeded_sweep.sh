#!/bin/bash
# For every seeded change under /verif/seeded: apply it to a scratch copy of /repo (tools/run_alt.sh; /repo itself is never
# touched) and run the property's check (tier $1, default quick). One line per change; logs in .work/logs/alt.<name>.<ID>.<tier>.log
tier=${1:-quick}; shift
cd "$(dirname "$0")/.."
names=${@:-$(cd seeded && ls -d */ | tr -d /)}
for name in $names; do
  d=seeded/$name
  pid=${name:0:3}
  p=$d/patch.diff; [ -f $d/patch.rebased.diff ] && p=$d/patch.rebased.diff
  tools/run_alt.sh $PWD/$p $tier $pid | tail -1
done
