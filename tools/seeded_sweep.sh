#!/bin/bash
# For every seeded change: apply to /repo (rebased patch if present), run the property's check (tier $1, default quick), revert.
# Writes .work/logs/seeded.<name>.log and prints one line per change. Never commits anything to /repo.
tier=${1:-quick}; shift
cd "$(dirname "$0")/.."
mkdir -p .work/logs
names=${@:-$(ls seeded)}
for name in $names; do
  d=seeded/$name
  pid=${name%%_*}
  p=$d/patch.diff; [ -f $d/patch.rebased.diff ] && p=$d/patch.rebased.diff
  if [ -n "$(git -C /repo status --porcelain)" ]; then echo "ABORT: /repo is dirty"; exit 3; fi
  if ! git -C /repo apply --check $PWD/$p 2>/dev/null; then echo "$name patch-does-not-apply"; continue; fi
  git -C /repo apply $PWD/$p
  s=$(date +%s)
  if [ -x checks/${pid,,}.py ]; then
    bin/check $pid $tier > .work/logs/seeded.$name.log 2>&1; rc=$?
    keys=$(grep -A1 '^VIOLATION' .work/logs/seeded.$name.log | grep -o 'key=[^ ]*' | sort -u | head -4 | tr '\n' ' ')
  else rc=NA; keys=""; fi
  git -C /repo checkout -- .
  echo "$name check=$pid rc=$rc $(( $(date +%s) - s ))s $keys"
done
