#!/bin/bash
# run every registered check (or the listed ones: run_all.sh <tier> C05 C06 ...) of one tier sequentially; logs under .work/logs; summary on stdout
tier=${1:-quick}; shift
ids="$@"
cd "$(dirname "$0")/.."
mkdir -p .work/logs
[ -z "$ids" ] && ids=$(python3 -c "import json;print(' '.join(c['property_id'] for c in json.load(open('MANIFEST.json'))['checks']))")
for id in $ids; do
  s=$(date +%s)
  timeout 5400 bin/check $id $tier > .work/logs/$id.$tier.log 2>&1
  rc=$?
  echo "$id rc=$rc $(( $(date +%s) - s ))s $(grep -c '^KNOWN-FINDING' .work/logs/$id.$tier.log) known $(grep -c '^VIOLATION' .work/logs/$id.$tier.log) violations"
done
