#!/bin/bash
# run every registered check of one tier sequentially; logs under .work/logs; summary on stdout
tier=${1:-quick}
cd "$(dirname "$0")/.."
mkdir -p .work/logs
for id in $(python3 -c "import json;print(' '.join(c['property_id'] for c in json.load(open('MANIFEST.json'))['checks']))"); do
  s=$(date +%s)
  timeout 5400 bin/check $id $tier > .work/logs/$id.$tier.log 2>&1
  rc=$?
  echo "$id rc=$rc $(( $(date +%s) - s ))s $(grep -c '^KNOWN-FINDING' .work/logs/$id.$tier.log) known $(grep -c '^VIOLATION' .work/logs/$id.$tier.log) violations"
done
