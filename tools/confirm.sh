#!/bin/bash
# usage: confirm.sh <ID> [features]  -- confirm a seeded change: patch applies, stable tests pass, demo fails with / passes without
id=$1; feat=${2:-}
wt=/scratch/wt/$id; out=/scratch/out/$id; log=$out/confirm.log
cd $wt || exit 2
git checkout -- . ; rm -f tests/seeded_demo.rs
export CARGO_NET_OFFLINE=true
{
echo "== confirm $id $(date)"
cp $out/seeded_demo.rs tests/seeded_demo.rs
echo "-- demo on unchanged tree (must pass)"
cargo test --offline $feat --test seeded_demo 2>&1 | grep -E "^test result|^test .*(FAILED|ok)$|error" | head -20
r_clean=${PIPESTATUS[0]}
git apply $out/patch.diff || { echo "PATCH DOES NOT APPLY"; exit 3; }
echo "-- stable tests with change (must pass)"
/scratch/run_stable_tests.sh $wt; r_stable=$?
echo "-- demo with change (must fail)"
cargo test --offline $feat --test seeded_demo 2>&1 | grep -E "^test result|^test .*(FAILED|ok)$|error" | head -20
r_mut=${PIPESTATUS[0]}
echo "RESULT id=$id clean_demo_exit=$r_clean stable_exit=$r_stable mutated_demo_exit=$r_mut"
if [ $r_clean = 0 ] && [ $r_stable = 0 ] && [ $r_mut != 0 ]; then echo "CONFIRMED $id"; else echo "NOT-CONFIRMED $id"; fi
} > $log 2>&1
git checkout -- . ; rm -f tests/seeded_demo.rs
tail -2 $log
