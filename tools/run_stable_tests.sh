#!/bin/bash
# usage: run_stable_tests.sh <repo-dir>   -- runs the 403 baseline-stable lib tests offline; exit 0 iff all pass
set -u
dir=${1:-/repo}
cd "$dir" || exit 2
export CARGO_NET_OFFLINE=true
out=$(cargo test --lib --offline -- --exact $(cat /scratch/stable_tests.txt) 2>&1)
echo "$out" | grep -E "^test result|FAILED|failed|panicked|error(\[|:)" | head -40
echo "$out" | grep -q "test result: ok. 403 passed" && exit 0
exit 1
