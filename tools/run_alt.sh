#!/bin/bash
# usage: tools/run_alt.sh <patch.diff|-> <tier> <ID> [<ID> ...]
# Runs checks against a scratch copy of /repo with a seeded change applied, without touching /repo, /verif/evidence or the
# regular build caches: the copy lives in /scratch/altrepo (one alt run at a time), builds go to /verif/.target/alt-*,
# evidence and replay files to /verif/.work/alt/.
patch=$1; tier=$2; shift 2
cd "$(dirname "$0")/.."
exec 9>/verif/.work/alt.lock; flock 9
mkdir -p /scratch/altrepo .work/alt .work/logs
rsync -rlpgoD --checksum --delete --exclude target --exclude .git /repo/ /scratch/altrepo/   # no -t: a restored file must get a fresh mtime or cargo keeps the stale build
if [ "$patch" != "-" ]; then
  (cd /scratch/altrepo && patch -p1 --quiet < "$patch") || { echo "PATCH-DOES-NOT-APPLY $patch"; exit 3; }
fi
touch /scratch/altrepo/src/lib.rs   # always rebuild: cargo compares mtimes, a file restored with an old mtime would keep a stale binary
for id in "$@"; do
  s=$(date +%s)
  tag=$(basename $(dirname "$patch") 2>/dev/null)
  log=.work/logs/alt.$tag.$id.$tier.log
  VERIF_REPO=/scratch/altrepo bin/check $id $tier > $log 2>&1; rc=$?
  keys=$(grep -A1 '^VIOLATION' $log | grep -o 'key=[^ ]*' | sort -u | head -4 | tr '\n' ' ')
  echo "$tag check=$id rc=$rc $(( $(date +%s) - s ))s $keys"
done
