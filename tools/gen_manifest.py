#!/usr/bin/env python3
"""Regenerate MANIFEST.json from the table below (single source of truth for claimed checks / not_applicable)."""
import json, os

VERIF = os.path.dirname(os.path.dirname(os.path.abspath(__file__)))

CHECKS = {
    "C12": dict(
        level="model_checking", engine="M (MIR->SMT) + driver grid",
        technique="SMT (cvc5/z3, bit-vectors + IEEE floats) over the MIR of the injection value closures; grid of source types through the real into_data_type with symbolic values; chrono model (dates as integer tuples, chrono calls as callee models, Display / strftime formatters read from the MIR and encoded as character tuples over integer digit variables); replay through the real injection",
        text="Every scalar conversion kernel (Boolean/Integer/Float) is translated from the MIR of the current tree and the solver decides injectivity, refusal of lossy values, round trip and monotonicity for all 2^64 inputs (pairs: 2^128); the type-level wrappers are run concretely on a boundary grid of source types and the solver searches the whole source type for a value whose conversion leaves the returned type. Part D: the Date <-> DateTime kernels are decided the same way over a chrono model (injective, lossy conversion refused, round trip, no panic), and the Date / Time / DateTime -> Text kernels are read as formatters from the MIR and the solver decides injectivity and order preservation of the rendering for every calendar-valid value of the years 1..9999. Bounded by: scalar and chrono variants only, grid of source types.",
        note="Trusted: lib/mir.py translation + callee table (validated on concrete points against the real injections every run), rustc's MIR printer, cvc5/z3. The type-level image of Integer -> Text is decided with the solvers' string theory (str.from_int) on a grid of source ranges. The chrono model (lib/chrono.py) is chrono's documented contract and is validated on concrete values against the real conversions every run; an unknown formatter is inconclusive. Outside: Boolean / Float / Duration / Bytes -> Text, leap-second representation, years outside 1..9999, composite liftings.",
        design="3 C12"),
    "C18": dict(
        level="model_checking", engine="M (MIR->SMT) + driver replay",
        technique="SMT over MIR-translated bodies: panic conditions of all numeric function kernels, size arithmetic of Map/Reduce/Join/Set as an inductive step with havocked inputs, Intervals<i64>::values_len; replay through the real API",
        text="Kernel-level totality: for all 64-bit / double inputs the panic condition of every numeric kernel of function.rs is decided, NaN production at finite inputs is decided for the non-transcendental float kernels, +-inf production for all float kernels (libm calls uninterpreted, constrained by their IEEE boundary facts); the size arithmetic of each relation constructor is checked for every input size >= 0 and every LIMIT/OFFSET (one inductive step covers relation trees of any depth); a concrete sweep of the real compiler and DP rewriter over the other checks' catalogues plus zero-bound / overflow shapes reports every panic (part d: enumeration, not a solver claim); values_len is checked against the hull width for every interval. Pipeline-level totality (sqlparser, builders, todo!()) is outside.",
        note="Trusted: MIR translation + callee table + stubs listed in evidence (from_interval panics iff min>max; input sizes arbitrary with 0<=max). Every counterexample is replayed through Function::value/super_image or SQL->Relation before being reported.",
        design="3 C18"),
    "C15": dict(
        level="model_checking", engine="M (MIR->SMT with combinator models) + driver replay",
        technique="SMT over the MIR of Hierarchy::get_key_value, its closures, is_suffix_of and From<Found>: symbolic map contents and lookup path vs. the documented rule; inductive step of the fold closure; replay on a real Hierarchy",
        text="The lookup bodies are translated from the MIR of the current tree (closures inlined, std combinators and slice indexing modelled) and compared with the specification for every map of up to 3 (thorough: 4) entries with keys of 1-3 components over an unbounded alphabet and every lookup path; the fold step is checked inductively against the Zero/One/More counting invariant, which covers maps of any size for the suffix branch. The SQL-level clause is enumeration of negative programs through the real compiler (reported as such).",
        note="Trusted: combinator models in lib/hof.py (validated on random concrete maps against the real Hierarchy every run), BTreeMap iterates in key order. A structural change the models do not cover makes the check inconclusive (exit 2), never passing.",
        design="3 C15"),
    "C13": dict(
        level="model_checking", engine="T (rule automaton in SMT) + driver extraction",
        technique="SMT over all labelings of each relation tree (one finite-domain variable per node, rule lists extracted from the real setter/eliminator/selector): completeness of the selector, soundness of the eliminator, entry-point reachability and score optimality",
        text="For every tree of the corpus the real search is run and the solver quantifies over the whole (exponential) labeling space: no consistent labeling is missing from the selector's output, no eliminated rule is usable, the entry points fail exactly when no acceptable consistent labeling exists, and no acceptable consistent labeling outscores the derivation the entry point applied. Tree shapes are enumerated (bounded), labelings are symbolic.",
        note="Trusted: extraction through the public API, additivity of Score (probed each run), identification of the applied derivation by a name-independent signature. Known finding: a panic in the SyntheticData rewriting of joins over aggregations.",
        design="3 C13, 2.4"),
    "C02": dict(
        level="other", engine="T (rule automaton in SMT) + structural IR walk + S (SymRel) for zero-cost results",
        technique="SMT: inductive obligations over a symbolic row of the rule table extracted from the real setter (all trees by induction) + taint query over all labelings of each corpus tree; structural walk of returned relations; SMT over the symbolic execution of relations returned with a zero-cost event on D and on D minus a unit (SQLite replay)",
        text="Rule-level formulation for relation trees of any depth: the inductive obligations (protected leaf never clean; clean output needs clean inputs except the PUP->DP reduce; Public needs Public; only Reduce makes DP) are decided by the solver over the extracted rule table for all 4 configurations; per tree, the solver shows no consistent labeling puts a clean label above a tainted protected leaf; the relations actually returned by rewrite_with_differential_privacy are walked structurally (every path to a protected table crosses an aggregation followed by a noise map). That walk is enumeration, stated as such. Relations returned with a zero-cost event (key-only reduces over public keys) are executed symbolically on every database of <= 2 rows per table and on the same database without the rows of a unit: the results must be equal (part S).",
        note="Trusted: extraction through the public API; independent resolution of protected tables by declared path; noise map = Map with a Random function.",
        design="3 C02, 2.4"),
    "C11": dict(
        level="model_checking", engine="K (Kani) + M (MIR composition lemmas) + driver grid",
        technique="Kani/CBMC proof harnesses over the compiled Intervals<i64> (inductive step from arbitrary valid states); SMT composition lemmas over the MIR of union/intersection/is_subset_of/contains with the leaf contracts Kani proves; SMT search for a value outside the result of the real lattice operations on a grid of type pairs",
        text="Interval algebra: each leaf operation is proved by Kani for every valid pre-state of <= 2 intervals and every argument (sorted/disjoint/capacity invariant re-established, no point lost, exact below capacity, capacity crossing included); the composite operations are decided from their MIR for operands of up to 2 (thorough: 3) intervals. DataType level: for ~700 type pairs on a boundary grid (scalars, optionals, structs, enumerations, lists and sets with symbolic values of length <= 2) the solver searches every value of the operands for one outside the real is_subset_of / super_union / super_intersection result (cross-variant membership through the MIR-translated injection kernels).",
        note="Trusted: Kani/CBMC; MIR translation, combinator and contract stubs; grid of type pairs is enumeration (stated). Known findings: Struct::super_union with different field sets; literal `contains` for cross-variant pairs.",
        design="3 C11, 2.2"),
    "C10": dict(
        level="model_checking", engine="M kernels + expression evaluator + driver",
        technique="SMT (bit-vectors + IEEE doubles): for generated (struct type, predicate) pairs the real DataType::filter result is compared against every row of the type on which the predicate - evaluated with the MIR-translated kernels - is true; SQLite + real contains replay",
        text="For each of ~350 (quick) / 5000 (thorough) generated pairs of a struct type and a predicate, the real filter narrowing is run and the solver searches all rows of the type (2^64-2^192, NULLs included) for one that satisfies the predicate and is missing from the narrowed type. Types and predicates are generated (bounded, seeded); rows are symbolic. The Date / Time / DateTime / Text variants of the comparison kernels (>, <, >=, <=, least, greatest), opaque to the predicate encoder, are decided against the integer variant for all pairs of arguments read as points of an ordered line (part K).",
        note="Trusted: lib/exprsem.py dispatch model over MIR-translated kernels (SQL NULL semantics); every counterexample is re-evaluated by SQLite on the library's own SQL rendering and by the real contains.",
        design="3 C10"),
    "C06": dict(
        level="model_checking", engine="M kernels + expression evaluator + driver",
        technique="SMT (bit-vectors + IEEE doubles; non-linear integer arithmetic for the hull lemmas; reals for aggregates): real super_image results on a grid of argument types / generated expression trees vs. every point of the argument box evaluated with the MIR-translated kernels; hull-of-corners lemmas with symbolic boxes; aggregates over lists of <= 3 symbolic elements",
        text="For the supported core (arithmetic, comparison, boolean, rounding, cast, CASE/COALESCE/IS NULL/IN, sum/mean/min/max/count/first/last/var/std) the real range propagation is run on ~1000 (quick) typed argument boxes and expression trees and the solver searches each whole box (up to 2^192 points, NULL flags included) for a value outside the propagated range; integer kernels are additionally checked against the hull of their corner values for symbolic boxes. Types and expression shapes are a grid (stated); points are symbolic.",
        note="Trusted: dispatch / NULL model of Expr::value (lib/exprsem.py) - each counterexample is replayed with the real Expr::value and contains; aggregate definitions restated from function.rs. Outside: text/date/regex functions, pow; sin/cos/exp/ln/log/sqrt are decided against a piecewise-monotone envelope on a grid of concrete argument intervals (part E); inputs on which a kernel panics (C18); integers beyond 2^53 meeting floats (known findings).",
        design="3 C06"),
    "C07": dict(
        level="translation_validation", engine="S (SymRel) + M lemma + SQLite replay",
        technique="SMT (linear/non-linear integer-real arithmetic): the Relation the real compiler emits for each SQL program is executed symbolically over every database of <= K rows per table; declared column types and size intervals are checked at every node; Map::size LIMIT/OFFSET arithmetic from MIR for all sizes; SQLite replay",
        text="Per program (fixed list + seeded random programs of the supported fragment) and per node of the emitted relation, the solver decides whether any conforming database of <= 2 (thorough: 3) rows per table produces a cell outside the declared type, a NULL in a non-optional column, or a row count outside the declared size. Programs are enumerated, databases are symbolic. The LIMIT/OFFSET size arithmetic is additionally decided for every input size, limit and offset from the MIR of Map::size.",
        note="Trusted: relational semantics of lib/symrel.py (SQL bag semantics, reals for floats); every reported violation is reproduced by SQLite on the SQL the library renders. Known findings: outer-join size with a unique side, NULL aggregates over empty input.",
        design="3 C07, 2.5"),
    "C14": dict(
        level="translation_validation", engine="S (SymRel) + M kernels + SQLite replay",
        technique="SMT: symbolic execution of the emitted Relation over all constraint-respecting databases of <= K rows looking for duplicate values in columns flagged Unique/PrimaryKey; injectivity of the kernels of functions listed as bijections over all 64-bit inputs; SQLite replay",
        text="For every node of every compiled program whose schema flags a column unique, the solver searches all databases (<= 2/3 rows per table, base constraints assumed) for two output rows with the same non-NULL value; the functions through which the flag is propagated (is_bijection) are checked for injectivity on their whole 64-bit domain when their kernel is translatable. The catalogue includes literal Values relations (every list over {1,2,3} of length <= 3 and some longer ones) and arithmetic on unique columns.",
        note="Trusted: lib/symrel.py semantics (SQLite-confirmed reports only); MIR translation. Known findings: CAST AS INTEGER / CAST AS FLOAT are not one-to-one.",
        design="3 C14"),
    "C05": dict(
        level="translation_validation", engine="S (SymRel) + SQLite replay",
        technique="SMT: the relation returned by the real rewrite_as_privacy_unit_preserving is executed symbolically on a database D and on D restricted to a symbolic unit u (ownership through the declared foreign-key paths); NULL ids/weights and bag difference of the unit's rows are decided for all databases of <= K rows; SQLite replay on D and D|u",
        text="For ~24 query shapes (maps, filters, inner/outer joins of tracked x tracked and tracked x public relations in both orders, per-unit reduces, unions, LIMIT) x privacy-unit definitions (own column, 1- and 2-step foreign-key paths, hashed) x strategies, the solver searches every database of <= 2 (thorough: 3) rows per table and every unit for an output row with a NULL id/weight or for a difference between the unit's rows on D and the output on D|u.",
        note="Trusted: lib/symrel.py semantics; independent ownership computation (referred ids are primary keys); SQLite-confirmed reports only. Known findings: NULL id/weight on outer-join padded rows; LIMIT over tracked rows.",
        design="3 C05"),
    "C01": dict(
        level="translation_validation", engine="S (SymRel) + SQLite replay",
        technique="SMT (non-linear real arithmetic, cvc5/z3): the pre-noise relation of each noised column - located structurally in the relation returned by the real rewrite_with_differential_privacy - is executed symbolically on neighbouring databases D / D minus one unit; the L2 change over groups is compared with sigma / recorded multiplier for all measure values under exhaustively enumerated key layouts",
        text="For each aggregation query x privacy-unit definition x DpParameters, every noise-adding projection X + sigma*noise is located and the solver decides, for every assignment of rows to units and groups (enumerated layouts, <= 2/3 rows per table) and all measure values and NULLs (symbolic), whether removing one unit can move the pre-noise column by more than sigma/m in L2 norm over the groups. Results computed on protected rows without any noise are checked against a bound of 0.",
        note="Trusted: lib/symrel.py semantics over reals; ownership through declared foreign-key paths; clip bound = sigma / recorded multiplier. Every reported violation is reproduced by SQLite on D and D'. A tightness twin (half the bound must be refutable) guards against a vacuous encoding.",
        design="3 C01"),
    "C09": dict(
        level="translation_validation", engine="S (SymRel) + SQLite replay",
        technique="SMT (non-linear real arithmetic): the DP-rewritten relation with every Box-Muller term replaced by 0 and the original relation are executed symbolically on the same database (enumerated key layouts, symbolic in-range measures); group sets and COUNT/SUM/AVG are compared; SQLite replay with RANDOM() overridden",
        text="For each aggregation query (ungrouped or grouped by public keys) the neutralised DP relation and the original relation are compared on every database of <= 2/3 rows per table whose measures lie in the declared ranges and whose units stay within the multiplicity the clip bound allows: original groups must be present with equal COUNT/SUM/AVG (a NULL aggregate of an empty group may become 0) and extra groups must be empty.",
        note="Trusted: structural neutralisation of the noise term; lib/symrel.py semantics over reals; SQLite-confirmed reports only (tolerance 1e-6). VARIANCE / STDDEV are compared with the population or the sample moment of the data. A difference that only the final clamp to the declared range introduces is asked separately (known finding for outer joins). DISTINCT aggregates are in the catalogue; the DP compilation drops their de-duplication (known finding, keyed by aggregate function).",
        design="3 C09"),
    "C04": dict(
        level="translation_validation", engine="S (SymRel) + M (gaussian_tau glue) + driver",
        technique="SMT (non-linear real arithmetic): the key-release sub-relation emitted by the real compiler (contribution cap by random rank, distinct count per key, noise, threshold) is executed symbolically with the random rank as a free injective assignment, over enumerated key layouts; the tau literal and the recorded (epsilon, delta) are re-derived from dp_event::gaussian_tau by the driver; gaussian_tau itself is translated from its MIR (Phi^-1, powf, sqrt, gaussian_noise uninterpreted) and decided equal to 1 + noise * Phi^-1((1-delta)^(1/Cu)) for all parameters",
        text="For grouped queries whose keys are not public: under every assignment of the random ranks each privacy unit contributes to at most max_privacy_unit_groups released keys, each unit is counted once per key, a key held by a single unit is released only if its noise draw exceeds tau - 1 with tau the literal reproduced by gaussian_tau on (epsilon, delta) * share, the event carries exactly that share and the remaining share goes to the aggregates, and keys of the outer query are closed under the release. Databases of <= 3 rows per table, 12 key layouts sampled in quick and all in thorough.",
        note="Trusted: lib/symrel.py semantics, the structural recognition of cap/distinct/noise/threshold nodes (unrecognised -> inconclusive), the textbook claim that tau-thresholding with this tau is (eps, delta)-DP.",
        design="3 C04"),
    "C08": dict(
        level="translation_validation", engine="S (SymRel) + independent SQL front end (lib/sqlfront.py) + SQLite replay",
        technique="SMT: the original SQL text and the SQL the real compiler renders from its relation are both executed symbolically by an independent front end (own lark grammar, name resolution, grouping, USING / NATURAL, set operations, ordering) over one symbolic database; the solver searches for a database on which the two results differ as bags, or as sequences under ORDER BY; SQLite replay of both texts",
        text="For every SQL text of a fixed list (aggregate/scalar mixes, GROUP BY on expressions / aliases / positions, HAVING, DISTINCT, CTEs, derived tables, join chains with ON / USING / NATURAL, set operations, ORDER BY / LIMIT / OFFSET, qualified and aliased names) and a seeded generator, and every database of <= 2 rows per table: the SQL rendered from the parsed relation returns the same bag of rows (the same sequence under a top-level ORDER BY), with the same width and the same names for aliased / plain-column items; a rendered text that the reference front end and SQLite (strict identifiers) reject while the original runs is reported as invalid.",
        note="Trusted: the reference SQL semantics of lib/sqlfront.py (independent of the compiler; shares scalar kernels and aggregate arithmetic with SymRel) - a violation is printed only when SQLite reproduces the difference. Outside: string literals / special identifiers (text is not encoded), ties under ORDER BY, names of unaliased expressions, programs the compiler refuses or panics on (reported as notes).",
        design="0.1 / 3 C08"),
    "C03": dict(
        level="model_checking", engine="M (MIR -> SMT over reals) + driver glue",
        technique="SMT (non-linear real arithmetic, ln uninterpreted and monotone, sqrt by its defining equation) over the MIR of dp_event::{gaussian_noise_multiplier, gaussian_noise} and DpAggregatesParameters::split: calibration, composition and monotonicity lemmas for all epsilon, delta, n, C; concrete glue over the relations and events returned by the real compiler (lineage of every noised column to its clip literal, budget sum, event entries)",
        text="Lemmas (all epsilon > 0, 0 < delta < 1, n >= 1, C >= 0 below the f64::MAX clamp): multiplier * epsilon = sqrt(2 ln(1.25/delta)); split(n) parts sum to the whole; the recorded multiplier never exceeds the one applied after splitting; sigma = multiplier * C. Glue on 10 queries x 2-3 parameter sets: one Gaussian entry per noised column with recorded multiplier <= sigma / C, sum of per-column epsilons under the best admissible split of delta <= the aggregation's share, key release recorded with at least the (eps, delta) that reproduces tau, shares sum to the total.",
        note="The glue is concrete enumeration over compiled queries (stated as such); optimal accounting, epsilon > 1 and float rounding are outside the claim.",
        design="3 C03"),
}

NOT_APPLICABLE = {
    "C16": "Determinism across call orders/threads quantifies over schedules of whole compilations (sqlparser + builders + a global Mutex<HashMap> counter + DefaultHasher); Kani does not model threads and the pipeline is far beyond symbolic reach; what remains is call-graph analysis, not a solver question (DESIGN.md section 0).",
    "C17": "Acceptance by eight dialect parsers is a property of sqlparser's tokenizer/parser (unbounded string loops, not encodable); five of the eight targets have no offline semantics to validate against (DESIGN.md section 0).",
}

NOT_YET = {
}


def main():
    checks = []
    for pid, c in sorted(CHECKS.items()):
        checks.append(dict(
            property_id=pid,
            quick_cmd="bin/check %s quick" % pid,
            thorough_cmd="bin/check %s thorough" % pid,
            evidence_file="evidence/%s.json" % pid,
            replay_cmd_template="cat {path}",
            engine=c["engine"],
            level_claimed=dict(category=c["level"], text=c["text"], design_ref=c["design"]),
            level_note=c["note"],
            technique=c["technique"],
        ))
    na = [dict(property_id=k, reason=v) for k, v in sorted(NOT_APPLICABLE.items())]
    na += [dict(property_id=k, reason="not claimed: " + v) for k, v in sorted(NOT_YET.items()) if k not in CHECKS]
    hooks_commits = []
    hc = os.path.join(VERIF, "hooks_commits.txt")
    if os.path.exists(hc):
        hooks_commits = [l.strip() for l in open(hc) if l.strip()]
    m = dict(
        version=1,
        setup_cmd="bin/setup",
        hooks=dict(
            guard="qrlew_verif",
            enable="RUSTFLAGS='--cfg qrlew_verif' (set by lib/driver.py and the Kani runner for every build of /repo)",
            baseline_off_cmd="cd /repo && cargo nextest run --workspace --no-fail-fast --tool-config-file pb:/w/lib/nextest.toml --profile pb --test-threads 8 --offline || cargo test --workspace --no-fail-fast --offline",
            source_commits=hooks_commits,
            add_only=True,
        ),
        engines=[
            dict(name="M", path="lib/mir.py", serves_properties=["C12", "C18", "C14", "C15", "C06", "C10", "C11", "C03", "C04"], kind_free_text="nightly MIR dump of /repo -> SMT-LIB for loop-free bodies; cvc5/z3 portfolio"),
            dict(name="T", path="lib/rules.py", serves_properties=["C02", "C13"], kind_free_text="rewriting-rule tree automaton: rule lists extracted from the real code, labelings decided by SMT"),
            dict(name="S", path="lib/symrel.py", serves_properties=["C07", "C14", "C05", "C01", "C09", "C04", "C08"], kind_free_text="SymRel: bounded symbolic evaluation of the Relation IR emitted by the real compiler over a symbolic database; SQLite replay"),
            dict(name="K", path="kani/", serves_properties=["C11", "C18"], kind_free_text="Kani proof harnesses over the real Intervals<B> (CBMC)"),
            dict(name="driver", path="driver/", serves_properties=["*"], kind_free_text="Rust binary linked against /repo's working tree: runs the real type/expr/relation/rewriting code concretely on JSON jobs (grids, replays, IR dumps)"),
        ],
        checks=checks,
        not_applicable=na,
        notes="Solver-based checking of the real code: see DESIGN.md. Exit codes: 0 held (known findings printed as KNOWN-FINDING), 1 VIOLATION (replay-confirmed, not listed), 2 inconclusive (never a pass).",
    )
    json.dump(m, open(os.path.join(VERIF, "MANIFEST.json"), "w"), indent=1)
    print("MANIFEST.json: %d checks, %d not_applicable" % (len(checks), len(na)))


if __name__ == "__main__":
    main()
